/-! Outcome of a handler: ok | returned error | Go panic (never defaulted). -/
namespace Sunrise

inductive PanicKind | nilDeref | typeAssert | indexRange | divZero | intRange | explicit
deriving DecidableEq, Repr

inductive Res (α : Type) where
  | ok (a : α)
  | err (code : String)
  | panic (k : PanicKind)
deriving Repr

namespace Res
def isOk {α} : Res α → Bool | ok _ => true | _ => false
def isPanic {α} : Res α → Bool | panic _ => true | _ => false
def bind {α β} (r : Res α) (f : α → Res β) : Res β :=
  match r with | ok a => f a | err c => err c | panic k => panic k
instance : Monad Res where
  pure := Res.ok
  bind := Res.bind
def cls {α} : Res α → String | ok _ => "ok" | err _ => "err" | panic _ => "panic"
end Res
end Sunrise
