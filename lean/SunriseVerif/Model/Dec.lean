/-
  Model of cosmossdk.io/math v1.5.0 `LegacyDec` (18 fixed decimals) over unbounded `Int`.
  Every operation mirrors legacy_dec.go line by line (rounding mode, sign handling).
  Not modelled: the 2^256·10^18 range assertion (`assertInValidRange`) — magnitudes are unbounded here.
  Division by zero is totalised as 0 in the *value* functions; every caller that can reach a
  zero divisor carries an explicit `.ok` guard generated next to it (Go panics exactly there).
-/
namespace Sunrise

/-- 10^18 -/
def PREC : Int := 1000000000000000000
/-- 5·10^17 -/
def HALF : Int := 500000000000000000

def Int.isZeroB (a : Int) : Bool := a == 0
def Int.isPosB (a : Int) : Bool := decide (a > 0)
def Int.isNegB (a : Int) : Bool := decide (a < 0)

structure Dec where
  raw : Int
deriving DecidableEq, Repr, Inhabited

namespace Dec

def zero : Dec := ⟨0⟩
def one : Dec := ⟨PREC⟩
def smallest : Dec := ⟨1⟩
def ofInt (i : Int) : Dec := ⟨i * PREC⟩

/-- truncated (toward zero) big.Int.Quo, total: x/0 = 0 -/
def tquo (a b : Int) : Int := Int.tdiv a b

/-- chopPrecisionAndRound on a non-negative argument (banker's rounding). -/
def chopRoundNN (d : Int) : Int :=
  let q := d / PREC
  let r := d % PREC
  if r = 0 then q
  else if r < HALF then q
  else if r > HALF then q + 1
  else if q % 2 = 0 then q else q + 1

def chopRound (d : Int) : Int :=
  if d < 0 then -(chopRoundNN (-d)) else chopRoundNN d

/-- chopPrecisionAndRoundUp: negative → truncate (toward zero); else ceil -/
def chopRoundUp (d : Int) : Int :=
  if d < 0 then -((-d) / PREC)
  else if d % PREC = 0 then d / PREC else d / PREC + 1

/-- chopPrecisionAndTruncate: big.Int.Quo by 10^18, toward zero -/
def chopTrunc (d : Int) : Int := tquo d PREC

def add (a b : Dec) : Dec := ⟨a.raw + b.raw⟩
def sub (a b : Dec) : Dec := ⟨a.raw - b.raw⟩
def neg (a : Dec) : Dec := ⟨-a.raw⟩
def abs (a : Dec) : Dec := ⟨if a.raw < 0 then -a.raw else a.raw⟩

def mul (a b : Dec) : Dec := ⟨chopRound (a.raw * b.raw)⟩
def mulTruncate (a b : Dec) : Dec := ⟨chopTrunc (a.raw * b.raw)⟩
def mulRoundUp (a b : Dec) : Dec := ⟨chopRoundUp (a.raw * b.raw)⟩
def mulInt (a : Dec) (i : Int) : Dec := ⟨a.raw * i⟩

def quo (a b : Dec) : Dec := ⟨chopRound (tquo (a.raw * PREC * PREC) b.raw)⟩
def quoTruncate (a b : Dec) : Dec := ⟨tquo (a.raw * PREC) b.raw⟩

/-- QuoRoundupMut, including its sign test on the *quotient* (legacy_dec.go:414-424). -/
def quoRoundUp (a b : Dec) : Dec :=
  let n := a.raw * PREC
  let q := Int.tdiv n b.raw
  let r := Int.tmod n b.raw
  if (r > 0 ∧ (decide (q < 0) = decide (b.raw < 0))) ∨ (r < 0 ∧ (decide (q < 0) ≠ decide (b.raw < 0)))
  then ⟨q + 1⟩ else ⟨q⟩

def quoInt (a : Dec) (i : Int) : Dec := ⟨tquo a.raw i⟩

def isZero (a : Dec) : Bool := a.raw == 0
def isNegative (a : Dec) : Bool := decide (a.raw < 0)
def isPositive (a : Dec) : Bool := decide (a.raw > 0)
def gt (a b : Dec) : Bool := decide (a.raw > b.raw)
def gte (a b : Dec) : Bool := decide (a.raw ≥ b.raw)
def lt (a b : Dec) : Bool := decide (a.raw < b.raw)
def lte (a b : Dec) : Bool := decide (a.raw ≤ b.raw)
def equal (a b : Dec) : Bool := a.raw == b.raw

def minDec (a b : Dec) : Dec := if a.raw < b.raw then a else b
def maxDec (a b : Dec) : Dec := if a.raw < b.raw then b else a

/-- Ceil: QuoRem truncated; remainder > 0 → +1 -/
def ceil (a : Dec) : Dec :=
  let q := Int.tdiv a.raw PREC
  let r := Int.tmod a.raw PREC
  if r > 0 then ⟨(q + 1) * PREC⟩ else ⟨q * PREC⟩

def truncateInt (a : Dec) : Int := chopTrunc a.raw
def truncateDec (a : Dec) : Dec := ⟨chopTrunc a.raw * PREC⟩
def roundInt (a : Dec) : Int := chopRound a.raw

/-- PowerMut (square and multiply with the same rounding order). -/
def powerLoop : Nat → Nat → Dec → Dec → Dec × Dec
  | 0, _, d, tmp => (d, tmp)
  | fuel+1, i, d, tmp =>
    if i > 1 then
      let tmp' := if i % 2 != 0 then mul tmp d else tmp
      powerLoop fuel (i / 2) (mul d d) tmp'
    else (d, tmp)

def power (d : Dec) (p : Nat) : Dec :=
  if p = 0 then one
  else
    let (d', tmp) := powerLoop 64 p d one
    mul d' tmp

/-- 2^256 · 10^18: `assertInValidRange` panics ("Int overflow") when |raw| exceeds it -/
def RANGE : Int := 115792089237316195423570985008687907853269984665640564039457584007913129639936 * 1000000000000000000
def inRange (d : Dec) : Bool := decide (d.raw ≤ RANGE ∧ -RANGE ≤ d.raw)

/-- PowerMut with the range assertion after every MulMut (`none` = Go panics with "Int overflow") -/
def powerLoopC : Nat → Nat → Dec → Dec → Option (Dec × Dec)
  | 0, _, d, tmp => some (d, tmp)
  | fuel+1, i, d, tmp =>
    if i > 1 then
      let tmp' := if i % 2 != 0 then mul tmp d else tmp
      let d' := mul d d
      if !tmp'.inRange || !d'.inRange then none else powerLoopC fuel (i / 2) d' tmp'
    else some (d, tmp)

def powerC (d : Dec) (p : Nat) : Option Dec :=
  if p = 0 then some one
  else match powerLoopC 64 p d one with
    | none => none
    | some (d', tmp) => let r := mul d' tmp; if r.inRange then some r else none

/-- Power with a Go uint64 exponent carried as Int -/
def powerI (d : Dec) (p : Int) : Dec := power d p.toNat

/-- ApproxRoot (Newton, ≤ 300 iterations, same stop rule).  `none` = the recovered panic → error. -/
def approxRootLoop (d : Dec) (root : Nat) : Nat → Dec → Dec
  | 0, guess => guess
  | fuel+1, guess =>
    let prev0 := power guess (root - 1)
    let prev := if prev0.isZero then smallest else prev0
    let delta := quoInt (sub (quo d prev) guess) (root : Int)
    let guess' := add guess delta
    if (abs delta).raw ≤ 1 then guess' else approxRootLoop d root fuel guess'

def approxRootPos (d : Dec) (root : Nat) : Dec :=
  if root = 0 then one
  else if root = 1 ∨ d.isZero ∨ d == one then d
  else approxRootLoop d root 300 one

def approxRoot (d : Dec) (root : Nat) : Dec :=
  if root = 0 then one
  else if d.raw < 0 then neg (approxRootPos (neg d) root) else approxRootPos d root

def approxSqrt (d : Dec) : Dec := approxRoot d 2

/-- rendering as `LegacyDec.String()` -/
def natPad18 (n : Nat) : String :=
  let s := toString n
  String.ofList (List.replicate (18 - s.length) '0') ++ s

def toString (a : Dec) : String :=
  let neg := a.raw < 0
  let m := a.raw.natAbs
  let ip := m / 1000000000000000000
  let fp := m % 1000000000000000000
  (if neg then "-" else "") ++ ToString.toString ip ++ "." ++ natPad18 fp

instance : ToString Dec := ⟨Dec.toString⟩

/-- parse the String() form (and plain integers / shorter fractions) -/
def ofString? (s : String) : Option Dec :=
  let (neg, body) := if s.startsWith "-" then (true, (s.drop 1).toString) else (false, s)
  match body.splitOn "." with
  | [i] => match i.toNat? with
    | some n => some ⟨(if neg then -1 else 1) * (n : Int) * PREC⟩
    | none => none
  | [i, f] =>
    if f.length > 18 ∨ f.length = 0 then none else
    match i.toNat?, f.toNat? with
    | some n, some m =>
      let scaled : Int := (n : Int) * PREC + (m : Int) * (10 : Int) ^ (18 - f.length)
      some ⟨if neg then -scaled else scaled⟩
    | _, _ => none
  | _ => none

/-! ### Range assertions of cosmossdk.io/math v1.5.0 (additive; nothing above is changed)

`legacy_dec.go`: `upperLimit = 2^256·10^18 − 1` (raw), `lowerLimit = −upperLimit`, and
`assertInValidRange` panics with "Int overflow" when `raw > upperLimit ∨ raw < lowerLimit`, i.e. the valid raw values are
exactly `−2^256·10^18 < raw < 2^256·10^18` (there is no bit-length constant in this version; older releases used
`maxDecBitLen = 315`, which is a different, wider bound).  It is called at the end of AddMut, SubMut, MulMut, MulTruncateMut,
MulRoundUpMut, MulIntMut, MulInt64Mut, QuoMut, QuoTruncateMut, QuoRoundupMut and Ceil — NOT by QuoInt(64)Mut, Neg, Abs,
TruncateDec, nor by the constructors LegacyNewDec / LegacyNewDecFromInt / Int.ToLegacyDec.
The older `Dec.inRange` above admits `raw = ±2^256·10^18` as well (one value each side more than the library). -/

/-- exact `IsInValidRange`: `-(2^256·10^18) < raw < 2^256·10^18` -/
def inRng (d : Dec) : Bool := decide (-RANGE < d.raw ∧ d.raw < RANGE)

/-- PowerMut with the exact range assertion after every MulMut (`none` = Go panics with "Int overflow") -/
def powerLoopR : Nat → Nat → Dec → Dec → Option (Dec × Dec)
  | 0, _, d, tmp => some (d, tmp)
  | fuel+1, i, d, tmp =>
    if i > 1 then
      if i % 2 != 0 then
        let tmp' := mul tmp d
        if !tmp'.inRng then none else
        let d' := mul d d
        if !d'.inRng then none else powerLoopR fuel (i / 2) d' tmp'
      else
        let d' := mul d d
        if !d'.inRng then none else powerLoopR fuel (i / 2) d' tmp
    else some (d, tmp)

/-- `true` iff `d.Power(p)` passes every range assertion (`p` a Go uint64 carried as Int) -/
def powerRng (d : Dec) (p : Int) : Bool :=
  if p.toNat = 0 then true
  else match powerLoopR 64 p.toNat d one with
    | none => false
    | some (d', tmp) => (mul d' tmp).inRng

end Dec

/- `math.Int`: `bigIntOverflows` ⇔ `BitLen() > 256`, i.e. valid ⇔ `|i| < 2^256`.  Add/Sub/Mul panic with
`ErrIntOverflow` ("integer overflow"), `NewIntFromBigInt(Mut)` (behind `TruncateInt`/`RoundInt`) with
"NewIntFromBigInt() out of bound".  Quo, Neg, Abs, MinInt, MaxInt, NewInt do not assert. -/
namespace Int256
def LIMIT : Int := 115792089237316195423570985008687907853269984665640564039457584007913129639936
def inRange (i : Int) : Bool := decide (-LIMIT < i ∧ i < LIMIT)
end Int256

/- `Int.Int64()`, `LegacyDec.TruncateInt64()/RoundInt64()`: panic "Int64() out of bound" unless `big.Int.IsInt64` -/
namespace I64
def inRange (i : Int) : Bool := decide (-9223372036854775808 ≤ i ∧ i ≤ 9223372036854775807)
end I64

/- `Int.Uint64()`: panic "Uint64() out of bounds" unless `big.Int.IsUint64` -/
namespace U64
def inRange (i : Int) : Bool := decide (0 ≤ i ∧ i ≤ 18446744073709551615)
end U64

end Sunrise
