import SunriseVerif.Model.Result
/-!
C20 — model of `x/da/erasurecoding/erasurecoding.go` (`ErasureCode`, `ReconstructAndJoinShards`, `JoinShards`) on top
of an executable model of what `github.com/klauspost/reedsolomon` v1.12.3 computes with default options and at most
256 shards: GF(2^8) with polynomial 0x11D (`generatingPolynomial = 29`), generator matrix
`vandermonde(total, data) · (top square)⁻¹` (`buildMatrix`), parity = lower rows · data, reconstruction = inverse of the
sub-matrix of the FIRST `data` present rows (`reedSolomon.reconstruct`).  Core-only, executable.

Not modelled: `data + parity > 256` (the library silently switches to Leopard-RS over GF(2^16)); every function
returns `err "unmodelled"` there and every theorem carries the guard explicitly.
-/
namespace Sunrise.RS

/-! ## size arithmetic, padding, splitting, joining (exactly the arithmetic of the Go code) -/

/-- `length := len(blob); mod := length % k; if mod != 0 { length += k - mod }` -/
def paddedLen (len k : Nat) : Nat := if len % k ≠ 0 then len + (k - len % k) else len

/-- `shardSizeInt := length / dataShardCount` -/
def shardSize (len k : Nat) : Nat := paddedLen len k / k

/-- `extendedBlob := make([]byte, shardSize*k); copy(extendedBlob, blob)` (`copy` copies `min` of both lengths) -/
def pad (blob : List UInt8) (k : Nat) : List UInt8 :=
  let tot := shardSize blob.length k * k
  blob.take tot ++ List.replicate (tot - blob.length) 0

/-- `shards[i] = extendedBlob[i*size:(i+1)*size]` for `i < k` -/
def splitSized (ext : List UInt8) (k size : Nat) : List (List UInt8) :=
  (List.range k).map fun i => (ext.drop (i * size)).take size

def split (ext : List UInt8) (k : Nat) : List (List UInt8) := splitSized ext k (ext.length / k)

/-- the write loop of `reedSolomon.Join`: `write` bytes are still wanted -/
def joinWrite : List (List UInt8) → Int → Res (List UInt8)
  | [], _ => .ok []
  | s :: rest, write =>
    if write < (s.length : Int) then
      (if write < 0 then .panic .indexRange else .ok (s.take write.toNat))   -- `shard[:write]`
    else
      match joinWrite rest (write - s.length) with
      | .ok r => .ok (s ++ r)
      | e => e

/-- `join` on fully present data shards (what the property talks about) -/
def join (shards : List (List UInt8)) (blobSize : Nat) : Res (List UInt8) := joinWrite shards blobSize

/-! ## GF(2^8), polynomial x^8+x^4+x^3+x^2+1 -/

def xtime (a : UInt8) : UInt8 := if a &&& 0x80 = 0 then a <<< 1 else (a <<< 1) ^^^ 0x1D

/-- shift-and-add multiplication (reference definition) -/
def gmulSlow (a b : UInt8) : UInt8 :=
  let rec go : Nat → UInt8 → UInt8 → UInt8 → UInt8
    | 0, _, _, r => r
    | n + 1, a, b, r => go n (xtime a) (b >>> 1) (if b &&& 1 = 0 then r else r ^^^ a)
  go 8 a b 0

/-- `expTable[i] = 2^i` for `i < 510` (doubled so that `log a + log b` needs no reduction) -/
def expTable : Array UInt8 := Id.run do
  let mut t : Array UInt8 := Array.mkEmpty 512
  let mut x : UInt8 := 1
  for _ in [0:512] do
    t := t.push x
    x := xtime x
  return t

def logTable : Array UInt8 := Id.run do
  let mut t : Array UInt8 := Array.replicate 256 0
  for i in [0:255] do
    t := t.set! (expTable[i]!).toNat (UInt8.ofNat i)
  return t

@[inline] def gadd (a b : UInt8) : UInt8 := a ^^^ b
@[inline] def glog (a : UInt8) : Nat := (logTable[a.toNat]!).toNat
def gmul (a b : UInt8) : UInt8 := if a = 0 || b = 0 then 0 else expTable[glog a + glog b]!
/-- multiplicative inverse; `0` has none (Go: `galOneOver(0)` panics — callers below never pass 0) -/
def ginv (a : UInt8) : UInt8 := expTable[255 - glog a]!
/-- `galExp(a, n)` incl. `galExp(0,0) = 1` -/
def gexp (a : UInt8) (n : Nat) : UInt8 := if n = 0 then 1 else if a = 0 then 0 else expTable[(glog a * n) % 255]!

/-! ## matrices over GF(2^8) -/

abbrev Mat := Array (Array UInt8)

def Mat.get (m : Mat) (r c : Nat) : UInt8 := (m[r]!)[c]!
def Mat.identity (n : Nat) : Mat := Array.ofFn (n := n) fun i => Array.ofFn (n := n) fun j => if i.val = j.val then 1 else 0
def vandermonde (rows cols : Nat) : Mat :=
  Array.ofFn (n := rows) fun r => Array.ofFn (n := cols) fun c => gexp (UInt8.ofNat r.val) c.val

def dot (row : Array UInt8) (col : Nat → UInt8) : UInt8 := Id.run do
  let mut acc : UInt8 := 0
  for i in [0:row.size] do
    acc := gadd acc (gmul row[i]! (col i))
  return acc

def Mat.mul (a b : Mat) : Mat :=
  let cols := if h : 0 < b.size then b[0].size else 0
  a.map fun row => Array.ofFn (n := cols) fun c => dot row fun i => b.get i c.val

def rowScale (row : Array UInt8) (f : UInt8) : Array UInt8 := row.map (gmul f)
def rowAddScaled (dst src : Array UInt8) (f : UInt8) : Array UInt8 :=
  Array.ofFn (n := dst.size) fun i => gadd dst[i] (gmul f src[i.val]!)

/-- Gauss–Jordan inversion of a `k×k` matrix on the augmented matrix `[m | I]`; `none` = singular
    (`matrix.Invert` → `errSingular`). The inverse is unique, so only "inverse or singular" matters. -/
def Mat.invert (m : Mat) : Option Mat := Id.run do
  let k := m.size
  let mut a : Mat := Array.ofFn (n := k) fun i => m[i] ++ (Mat.identity k)[i.val]!
  for r in [0:k] do
    if a.get r r = 0 then
      for r2 in [r+1:k] do
        if a.get r r = 0 && a.get r2 r ≠ 0 then
          let t := a[r]!
          a := (a.set! r a[r2]!).set! r2 t
    if a.get r r = 0 then return none
    a := a.set! r (rowScale a[r]! (ginv (a.get r r)))
    for r2 in [0:k] do
      if r2 ≠ r && a.get r2 r ≠ 0 then
        a := a.set! r2 (rowAddScaled a[r2]! a[r]! (a.get r2 r))
  return some (a.map fun row => row.extract k (2 * k))

/-- `buildMatrix(dataShards, totalShards)`: `vandermonde · (top square)⁻¹`; `none` if the top square were singular -/
def buildMatrix (k n : Nat) : Option Mat :=
  let vm := vandermonde n k
  match Mat.invert (vm.extract 0 k) with
  | some ti => some (vm.mul ti)
  | none => none

/-- `codeSomeShards`: `out[i][j] = Σ_c rows[i][c] · inputs[c][j]` -/
def codeShards (rows : Array (Array UInt8)) (inputs : Array (Array UInt8)) (size : Nat) : Array (Array UInt8) :=
  rows.map fun row => Array.ofFn (n := size) fun j => dot row fun c => (inputs[c]!)[j.val]!

/-! ## the library entry points as used by erasurecoding.go -/

/-- a shard slot: `none` = Go `nil`, `some []` = empty non-nil slice (both count as "missing" for `Reconstruct`) -/
abbrev Shard := Option (List UInt8)
def Shard.len : Shard → Nat | none => 0 | some s => s.length
def Shard.bytes : Shard → List UInt8 | none => [] | some s => s

inductive NewRes | ok | err | unmodelled
deriving DecidableEq, Repr

/-- `reedsolomon.New(d, p)` outcome with default options -/
def newEncoder (d p : Int) : NewRes :=
  if d + p > 256 then (if d ≤ 0 || p ≤ 0 || d + p > 65536 then .err else .unmodelled)
  else if d ≤ 0 || p < 0 then .err else .ok

structure Encoded where
  shardSize : Nat
  shardCount : Nat
  shards : List (List UInt8)
deriving Repr, BEq

/-- parity shards for the given data shards (`encoder.Encode`); `none` = library error -/
def encodeParity (k p : Nat) (data : List (List UInt8)) (size : Nat) : Option (List (List UInt8)) :=
  if p = 0 then some []
  else match buildMatrix k (k + p) with
    | none => none
    | some g =>
      let rows := g.extract k (k + p)
      some ((codeShards rows (data.map List.toArray).toArray size).toList.map Array.toList)

/-- `ErasureCode(blob, dataShardCount, parityShardCount)` -/
def erasureCode (blob : List UInt8) (d p : Int) : Res Encoded :=
  match newEncoder d p with
  | .err => .err "new"
  | .unmodelled => .err "unmodelled"
  | .ok =>
    let k := d.toNat
    let size := shardSize blob.length k
    let data := splitSized (pad blob k) k size
    -- encoder.Encode → checkShards: `size == 0` → ErrShardNoData
    if size = 0 then .err "no-shard-data"
    else match encodeParity k p.toNat data size with
      | none => .err "matrix"
      | some par => .ok { shardSize := size, shardCount := (d + p).toNat, shards := data ++ par }

/-- `shardSize(shards)`: first non-zero length -/
def firstSize : List Shard → Nat
  | [] => 0
  | s :: rest => if s.len ≠ 0 then s.len else firstSize rest

/-- indices of the first `k` present shards (`validIndices`) -/
def firstPresent (shards : List Shard) (k : Nat) : List Nat :=
  ((List.range shards.length).filter fun i => (shards.getD i none).len ≠ 0).take k

/-- `encoder.Reconstruct(shards)` for `k` data and `shards.length - k` parity shards; result: all shards filled -/
def reconstruct (shards : List Shard) (k : Nat) : Res (List (List UInt8)) :=
  let n := shards.length
  let size := firstSize shards
  if size = 0 then .err "no-shard-data"
  else if shards.any (fun s => s.len ≠ size && s.len ≠ 0) then .err "shard-size"
  else
    let present := (shards.filter fun s => s.len ≠ 0).length
    if present = n then .ok (shards.map Shard.bytes)
    else if present < k then .err "too-few-shards"
    else match buildMatrix k n with
      | none => .err "matrix"
      | some g =>
        let valid := firstPresent shards k
        match Mat.invert (valid.map fun i => g[i]!).toArray with
        | none => .err "singular"
        | some dec =>
          let sub := (valid.map fun i => ((shards.getD i none).bytes).toArray).toArray
          let data := (codeShards dec sub size).toList.map Array.toList
          -- missing data shards are recomputed, present ones kept
          let dataFilled := (List.range k).map fun i =>
            if (shards.getD i none).len ≠ 0 then (shards.getD i none).bytes else data.getD i []
          let par := (codeShards (g.extract k n) (dataFilled.map List.toArray).toArray size).toList.map Array.toList
          let parFilled := (List.range (n - k)).map fun i =>
            if (shards.getD (k + i) none).len ≠ 0 then (shards.getD (k + i) none).bytes else par.getD i []
          .ok (dataFilled ++ parFilled)

/-- `encoder.Join(w, shards, outSize)` on Go slices incl. nil: size check loop, then the write loop -/
def joinLib (shards : List Shard) (k : Nat) (outSize : Int) : Res (List UInt8) :=
  let ds := shards.take k
  let rec enough : List Shard → Int → Res Bool
    | [], size => .ok (decide (size ≥ outSize))
    | none :: _, _ => .err "reconstruct-required"
    | some s :: rest, size =>
      let size' := size + s.length
      if size' ≥ outSize then .ok true else enough rest size'
  match enough ds 0 with
  | .ok true => joinWrite (ds.map Shard.bytes) outSize
  | .ok false => .err "short-data"
  | .err e => .err e
  | .panic k => .panic k

/-- `JoinShards(shards, dataShardCount, blobSize)` -/
def joinShards (shards : List Shard) (d blobSize : Int) : Res (List UInt8) :=
  match newEncoder d (shards.length - d) with
  | .err => .err "new"
  | .unmodelled => .err "unmodelled"
  | .ok => joinLib shards d.toNat blobSize

/-- `ReconstructAndJoinShards(shards, dataShardCount, blobSize)` -/
def reconstructAndJoin (shards : List Shard) (d blobSize : Int) : Res (List UInt8) :=
  match newEncoder d (shards.length - d) with
  | .err => .err "new"
  | .unmodelled => .err "unmodelled"
  | .ok =>
    match reconstruct shards d.toNat with
    | .ok full => joinShards (full.map some) d blobSize
    | .err e => .err e
    | .panic k => .panic k

/-- exhaustive self-test of the field laws of the executable GF(2^8) (run by the driver; a TEST, not a theorem) -/
def gfSelfTest : Bool := Id.run do
  let mut ok := true
  for a in [0:256] do
    let x := UInt8.ofNat a
    if a ≠ 0 && gmul x (ginv x) ≠ 1 then ok := false
    for b in [0:256] do
      let y := UInt8.ofNat b
      if gmul x y ≠ gmulSlow x y || gmul x y ≠ gmul y x then ok := false
      if a ≠ 0 && b ≠ 0 && gmul x y = 0 then ok := false
  -- associativity / distributivity on a 64×64×256 grid incl. all of the third operand
  for a in [0:64] do
    for b in [0:64] do
      for c in [0:256] do
        let x := UInt8.ofNat (a * 4 + 1); let y := UInt8.ofNat (b * 4 + 3); let z := UInt8.ofNat c
        if gmul (gmul x y) z ≠ gmul x (gmul y z) then ok := false
        if gmul x (gadd y z) ≠ gadd (gmul x y) (gmul x z) then ok := false
  return ok

end Sunrise.RS
