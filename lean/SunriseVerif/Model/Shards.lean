import SunriseVerif.Model.Result
/-!
C20 — model of `x/da/types/shards.go`: `GetRandomIndicesFromSeed(n, threshold, seed1, seed2)` =
Fisher–Yates (`math/rand/v2` `Rand.Shuffle`) over `[0,n)`, truncated to `min(threshold, n)`.

Two layers:
* `assignWith c n threshold` — the shuffle over an ARBITRARY choice function `c` (`c i` is the index chosen at loop
  position `i`, i.e. the value of `r.uint64n(i+1)`); this is what the theorems of `Props/C20` quantify over;
* `assign seed1 seed2 n threshold` — the same with `c` produced by an exact model of the PCG-DXSM source
  (`rand.NewPCG(seed1, seed2)`) and of `Rand.uint64n` on 64-bit platforms, compared index for index with the Go code.
Core-only, executable.
-/
namespace Sunrise.Shards

/-- `arr[i], arr[j] = arr[j], arr[i]` (both indices in range; the caller guards) -/
def swapL (l : List Nat) (i j : Nat) : List Nat := (l.set i (l.getD j 0)).set j (l.getD i 0)

/-- `for i := m; i > 0; i-- { j := c i; swap(i, j) }`; an out-of-range index is a Go index panic -/
def shuffleFrom (c : Nat → Nat) : Nat → List Nat → Res (List Nat)
  | 0, l => .ok l
  | i + 1, l =>
    if i + 1 < l.length ∧ c (i + 1) < l.length then shuffleFrom c i (swapL l (i + 1) (c (i + 1)))
    else .panic .indexRange

/-- `GetRandomIndicesFromSeed` with the random source abstracted to the choice function `c` -/
def assignWith (c : Nat → Nat) (n threshold : Int) : Res (List Int) :=
  let t := if threshold > n then n else threshold
  -- `for i := 0; i < n; i++ { arr = append(arr, i) }` is empty for n ≤ 0; `Shuffle(int(n))` panics for n < 0
  if n < 0 then .panic .explicit
  else match shuffleFrom c (n.toNat - 1) (List.range n.toNat) with
    | .ok l => if t < 0 then .panic .indexRange else .ok ((l.take t.toNat).map Int.ofNat)   -- `arr[:threshold]`
    | .err e => .err e
    | .panic k => .panic k

/-! ## exact PCG-DXSM (`math/rand/v2/pcg.go`) and `Rand.uint64n` (64-bit) -/

def two64 : Nat := 18446744073709551616
def two128 : Nat := two64 * two64
def pcgMul : Nat := 2549297995355413924 * two64 + 4865540595714422341
def pcgInc : Nat := 6364136223846793005 * two64 + 1442695040888963407
def cheapMul : Nat := 0xda942042e4dd58b5

/-- `PCG.next`: 128-bit LCG step on `state = hi·2^64 + lo` -/
def pcgNext (s : Nat) : Nat := (s * pcgMul + pcgInc) % two128

/-- `PCG.Uint64` output function (DXSM) of the ALREADY ADVANCED state -/
def pcgOut (s : Nat) : Nat :=
  let hi := s / two64
  let lo := s % two64
  let hi := hi ^^^ (hi >>> 32)
  let hi := (hi * cheapMul) % two64
  let hi := hi ^^^ (hi >>> 48)
  (hi * (lo ||| 1)) % two64

/-- `Rand.uint64n(n)` for `n ≥ 1`: returns (value, new state); `none` only if the unbiasing loop ran out of fuel
    (each iteration rejects with probability < n/2^64) -/
def uint64n (s : Nat) (n : Nat) : Option (Nat × Nat) :=
  let s1 := pcgNext s
  let x := pcgOut s1
  if n &&& (n - 1) = 0 then some (x % n, s1)      -- power of two: `x & (n-1)`
  else
    let hi := x * n / two64
    let lo := x * n % two64
    if lo < n then
      let thresh := (two64 - n) % n              -- `-n % n` in uint64
      let rec loop : Nat → Nat → Nat → Nat → Option (Nat × Nat)
        | 0, _, _, _ => none
        | fuel + 1, s, hi, lo =>
          if lo < thresh then
            let s' := pcgNext s
            let x := pcgOut s'
            loop fuel s' (x * n / two64) (x * n % two64)
          else some (hi, s)
      loop 64 s1 hi lo
    else some (hi, s1)

/-- the choices of `Shuffle(n)`: for `i = m, m-1, …, 1` the value `uint64n(i+1)`, in that order -/
def pcgChoices : Nat → Nat → Option (List Nat)
  | 0, _ => some []
  | i + 1, s =>
    match uint64n s (i + 2) with
    | none => none
    | some (j, s') => match pcgChoices i s' with
      | none => none
      | some rest => some (j :: rest)

/-- choice function from the list produced for positions `m, m-1, …, 1` -/
def choiceFn (m : Nat) (l : List Nat) : Nat → Nat := fun i => l.getD (m - i) 0

/-- `GetRandomIndicesFromSeed(n, threshold, seed1, seed2)` -/
def assign (seed1 seed2 : Nat) (n threshold : Int) : Res (List Int) :=
  let m := n.toNat - 1
  match pcgChoices m ((seed1 % two64) * two64 + seed2 % two64) with
  | none => .err "pcg-fuel"
  | some l => assignWith (choiceFn m l) n threshold

end Sunrise.Shards
