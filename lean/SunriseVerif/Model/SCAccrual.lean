/-!
  Reward-accrual abstraction of x/shareclass (C10) for ONE validator and ONE reward denom: the reward multiplier, every
  holder's share balance and checkpoint (`users_last_reward_multiplier`), and three ghost totals — what entered the
  reward saver (`recv`), what the saver paid to claimants (`paid`) and the accumulated rounding error (`slack`).  All
  quantities are exact rationals.

  Every operation carries the values the code actually computed, and its guard states how they relate to the EXACT value
  of the formula the code evaluates with 34-digit decimals; `e ≥ 0` is the rounding error of that evaluation in the
  claimant's favour (keeper_rewards.go / keeper_claim.go / types/types.go; store-level model: Model/ShareClass.lean):

  * `reward R M' e`     — HandleModuleAccountRewardsByValidator with share supply T > 0: the coins `R` go to the reward
                          saver and the multiplier becomes `M'` = `CalculateRewardMultiplierNew M R T` ≈ M + R/T:
                          it does not decrease and (M' − M)·T ≤ R + e;
  * `rewardNoShares R`  — the same with T = 0: the coins are forwarded, the multiplier is left alone (the guard does not
                          ask for T = 0, so this also covers coins that reach the saver in any other way);
  * `claim i pay e`     — Keeper.ClaimRewards (alone or as the first step of NonVotingDelegate / NonVotingUndelegate):
                          holder i receives `pay` = `CalculateReward M m_i share_i` ≤ (M − m_i)·share_i + e (or 0 when the
                          saver holds nothing of the denom) and is checkpointed at the current multiplier;
  * `setShares i δ`     — the share-balance change of NonVotingDelegate (δ > 0, mint) / NonVotingUndelegate (δ < 0, burn),
                          which happens after the claim of the same message, i.e. when m_i = M (share tokens are not
                          transferable, so nothing else changes a balance: C10 `share_not_transferable`, C13);
  * `join m`            — an address that never held shares appears (balance 0; its stored checkpoint m ≤ M, absent = 0).

  The share supply `T` is by definition the sum of the holders' balances (bank supply invariant).
-/
namespace Sunrise.SCAccrual

structure User where
  share : Int
  m : Rat

structure St where
  M : Rat
  users : List User
  recv : Rat
  paid : Rat
  slack : Rat

/-- share-token supply -/
def supply : List User → Int
  | [] => 0
  | u :: us => u.share + supply us

/-- exact reward accrued by a holder since its checkpoint: (M − m)·share -/
def accrued (M : Rat) (u : User) : Rat := (M - u.m) * (u.share : Rat)

/-- exact total still claimable -/
def owed (M : Rat) : List User → Rat
  | [] => 0
  | u :: us => accrued M u + owed M us

def modifyAt (f : User → User) : List User → Nat → List User
  | [], _ => []
  | u :: us, 0 => f u :: us
  | u :: us, i + 1 => u :: modifyAt f us i

inductive Op where
  | reward (R M' e : Rat)
  | rewardNoShares (R : Rat)
  | claim (i : Nat) (pay e : Rat)
  | setShares (i : Nat) (δ : Int)
  | join (m : Rat)

def Op.guard (s : St) : Op → Prop
  | .reward R M' e =>
      0 ≤ e ∧ 0 ≤ R ∧ 0 < supply s.users ∧ s.M ≤ M' ∧ (M' - s.M) * (supply s.users : Rat) ≤ R + e
  | .rewardNoShares R => 0 ≤ R
  | .claim i pay e => 0 ≤ e ∧ 0 ≤ pay ∧ ∃ u, s.users[i]? = some u ∧ pay ≤ accrued s.M u + e
  | .setShares i δ => ∃ u, s.users[i]? = some u ∧ u.m = s.M ∧ 0 ≤ u.share + δ
  | .join m => m ≤ s.M

def step (s : St) : Op → St
  | .reward R M' e => { s with M := M', recv := s.recv + R, slack := s.slack + e }
  | .rewardNoShares R => { s with recv := s.recv + R }
  | .claim i pay e =>
      { s with users := modifyAt (fun u => { u with m := s.M }) s.users i, paid := s.paid + pay, slack := s.slack + e }
  | .setShares i δ => { s with users := modifyAt (fun u => { u with share := u.share + δ }) s.users i }
  | .join m => { s with users := s.users ++ [⟨0, m⟩] }

/-- nothing received, nothing paid, no holder; absent multiplier = 0 -/
def init : St := ⟨0, [], 0, 0, 0⟩

inductive Reachable : St → Prop where
  | init : Reachable init
  | step {s : St} (op : Op) : Reachable s → op.guard s → Reachable (step s op)

/-- rewards are accounted exactly once: what was paid plus the exact total still claimable is covered by what the reward
    saver received, up to the accumulated rounding slack -/
structure Inv (s : St) : Prop where
  slackNN : 0 ≤ s.slack
  paidNN : 0 ≤ s.paid
  wf : ∀ u ∈ s.users, 0 ≤ u.share ∧ u.m ≤ s.M
  cover : owed s.M s.users + s.paid ≤ s.recv + s.slack

/-! ### histories whose rounding errors are RELATIVE (what 34-digit arithmetic gives)

  `Op.tight k`: the error of a reward is at most R/k, the error of a claim at most (M − m_i)·share_i/k (for the kernels
  of types.go k = 2·10^33: one half-up rounding to 34 significant digits of the quotient R/T resp. of the product
  (M − m_i)·share_i; `Add`/`Sub` are exact and the final truncation only lowers the payment). -/

def Op.tight (k : Rat) (s : St) : Op → Prop
  | .reward R _ e => k * e ≤ R
  | .claim i _ e => ∃ u, s.users[i]? = some u ∧ k * e ≤ accrued s.M u
  | _ => True

inductive ReachableT (k : Rat) : St → Prop where
  | init : ReachableT k init
  | step {s : St} (op : Op) : ReachableT k s → op.guard s → op.tight k s → ReachableT k (step s op)

/-! ### executable guard (for lock-step comparison against the store-level model) -/

def Op.guardB (s : St) : Op → Bool
  | .reward R M' e =>
      decide (0 ≤ e) && decide (0 ≤ R) && decide (0 < supply s.users) && decide (s.M ≤ M')
        && decide ((M' - s.M) * (supply s.users : Rat) ≤ R + e)
  | .rewardNoShares R => decide (0 ≤ R)
  | .claim i pay e =>
      decide (0 ≤ e) && decide (0 ≤ pay)
        && (match s.users[i]? with | some u => decide (pay ≤ accrued s.M u + e) | none => false)
  | .setShares i δ => match s.users[i]? with | some u => decide (u.m = s.M) && decide (0 ≤ u.share + δ) | none => false
  | .join m => decide (m ≤ s.M)

end Sunrise.SCAccrual
