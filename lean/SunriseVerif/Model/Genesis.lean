/-
C19 — genesis export / import of one custom module store, over an arbitrary coverage table (core only, executable).

A module store is a finite map  prefix-name ↦ entries (key/value pairs in key order).  `ExportGenesis` copies the entries of
the prefixes it reads into the genesis object, `InitGenesis` writes the entries of the prefixes it writes; indexes of an
IndexedMap are never exported: they are recomputed from the primary map by every write to it.
The table (which prefixes exist, which are read by export / written by init, which are indexes of which map) is a parameter;
the instance that matters is regenerated from the Go source on every run (`Gen.Facts.prefixTable`).
-/
namespace Sunrise.Genesis

abbrev Entry := String × String
abbrev Store := String → List Entry

structure Row where
  name : String
  isIndex : Bool
  parent : String        -- for an index: name of its primary map
  initWrites : Bool      -- InitGenesis writes the prefix (for an index: writes the parent)
  exportReads : Bool     -- ExportGenesis reads the prefix
  deriving DecidableEq, Repr

def find (tbl : List Row) (n : String) : Option Row := tbl.find? (fun r => r.name == n)

/-- what ExportGenesis puts into the genesis object -/
def exportG (tbl : List Row) (st : Store) : Store := fun n =>
  match find tbl n with
  | some r => if !r.isIndex && r.exportReads then st n else []
  | none => []

/-- the store of a fresh chain after InitGenesis; `ix n es` = content of index `n` computed from the entries `es` of its parent -/
def importG (tbl : List Row) (ix : String → List Entry → List Entry) (g : Store) : Store := fun n =>
  match find tbl n with
  | none => []
  | some r =>
    if r.isIndex then
      match find tbl r.parent with
      | some pr => if pr.initWrites then ix n (g r.parent) else []
      | none => []
    else if r.initWrites then g n else []

def covered (r : Row) : Bool := r.initWrites && r.exportReads

/-- primary prefixes whose content does not survive export + import -/
def uncovered (tbl : List Row) : List String := (tbl.filter (fun r => !r.isIndex && !covered r)).map (·.name)

/-- names are unique; every index names an existing primary map as its parent -/
def WellFormed (tbl : List Row) : Prop :=
  (tbl.map (·.name)).Nodup ∧ ∀ r ∈ tbl, r.isIndex = true → (find tbl r.parent).any (fun pr => !pr.isIndex) = true

instance (tbl : List Row) : Decidable (WellFormed tbl) := by unfold WellFormed; exact inferInstance

/-- the store's indexes agree with its primary maps (an invariant of `collections.IndexedMap`) and nothing lives outside the table -/
def Consistent (tbl : List Row) (ix : String → List Entry → List Entry) (st : Store) : Prop :=
  (∀ r ∈ tbl, r.isIndex = true → st r.name = ix r.name (st r.parent)) ∧ (∀ n, find tbl n = none → st n = [])

end Sunrise.Genesis
