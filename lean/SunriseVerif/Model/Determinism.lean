/-
C14 — models of every `range` over a Go map in consensus code (core only, executable).

A Go map has no iteration order: one execution sees the entries in SOME order, another execution in another one.
Each loop is therefore modelled as a fold over the LIST of entries in the order this execution happened to see them;
"deterministic" = the fold gives the same observable result for every permutation of that list.

What is modelled per site is the loop body as written (including its `continue`/`return err` paths) and the way the rest of
the enclosing function consumes what the loop wrote.  Go values whose content does not matter for order (decimals, addresses)
are Int / String; a Go map written by the loop is a total function (absent key = default), a Go slice is a List (order kept).
-/
namespace Sunrise.Determinism

/-- Go `m[k] = v` on a map modelled as a total function. -/
def upd {κ ν : Type} [DecidableEq κ] (m : κ → ν) (k : κ) (v : ν) : κ → ν := fun k' => if k' = k then v else m k'

/-- A loop whose body may abort the enclosing function (`return err`, panic): `none` = aborted. -/
def foldO {α β : Type} (f : β → α → Option β) : β → List α → Option β
  | b, [] => some b
  | b, x :: xs => (f b x).bind (fun b' => foldO f b' xs)

/-! ## x/da/keeper/abci.go — `for index, proofCount := range shardProofCount` (TallyValidityProofs) -/

/-- Everything the body reads that is not loop state. All of it is a function of the entry, never of the position. -/
structure DaEnv where
  /-- parity guard + `proofCount >= replicationFactorWithParity * 2 / 3` -/
  safe : Int → Bool
  /-- `indexedValidators[index]` filtered by `!shardProofSubmitted[index][val]` -/
  unsubmitted : Int → List String

structure DaAcc where
  /-- `safeShardIndices []int64` — a slice, appended in iteration order -/
  safeShardIndices : List Int
  /-- `faultValidators map[string]sdk.ValAddress` — key determines value -/
  faultValidators : String → Bool

def daStep (env : DaEnv) (a : DaAcc) (e : Int × Int) : DaAcc :=
  if env.safe e.2 then
    { safeShardIndices := a.safeShardIndices ++ [e.1]
      faultValidators := (env.unsubmitted e.1).foldl (fun m v => upd m v true) a.faultValidators }
  else a

def daLoop (env : DaEnv) (a : DaAcc) (entries : List (Int × Int)) : DaAcc := entries.foldl (daStep env) a

/-- `checkCorrectInvalidity(invalidity, safeShardIndices)`: builds a set from the slice, true iff no index of the invalidity is in it. -/
def checkCorrectInvalidity (indices : List Int) (safeShardIndices : List Int) : Bool :=
  indices.all (fun i => !safeShardIndices.contains i)

/-- The only ways the rest of the function looks at what the loop wrote: `len(safeShardIndices)`, `checkCorrectInvalidity`, and
the key set of `faultValidators` (ranged over by the next site). -/
structure DaObs where
  len : Nat
  correct : List Int → Bool
  fault : String → Bool

def daObs (a : DaAcc) : DaObs :=
  { len := a.safeShardIndices.length
    correct := fun ix => checkCorrectInvalidity ix a.safeShardIndices
    fault := a.faultValidators }

/-! ## x/da/keeper/abci.go — `for _, valAddr := range faultValidators` -/

structure FaultEnv where
  getErr : String → Bool   -- `GetFaultCounter` fails → `continue`
  setErr : String → Bool   -- `SetFaultCounter` fails → `continue`

/-- store `fault_counts/`: validator ↦ counter -/
def faultStep (env : FaultEnv) (store : String → Int) (v : String) : String → Int :=
  if env.getErr v then store else if env.setErr v then store else upd store v (store v + 1)

def faultLoop (env : FaultEnv) (store : String → Int) (vals : List String) : String → Int := vals.foldl (faultStep env) store

/-! ## x/liquidityincentive/keeper/keeper_tally.go `for _, val := range currValidators`, app/gov/gov.go `for _, val := range validators`

Same shape: per validator a voting power computed from the entry alone, then for every (key, weight) of its vote
`results[key] += power * weight`, and `total += power`.  In the gauge tally an unparsable weight returns an error; in the gov
tally it is ignored and the nil decimal panics in `Mul`; a validator without delegator shares panics in `Quo`.  All three abort
the enclosing function and are `none` here (which abort comes first can depend on the order; whether one happens cannot). -/

structure Weighted where
  key : Nat              -- pool id / vote option
  weight : Option Int    -- `LegacyNewDecFromStr`: none = not parsable
  deriving Repr

structure ValInfo where
  /-- `(DelegatorShares - DelegatorDeductions) * BondedTokens / DelegatorShares`; none = division by zero -/
  power : Option Int
  vote : List Weighted
  deriving Repr

structure TallyAcc where
  results : Nat → Int
  total : Int

/-- inner loop `for _, w := range val.Vote { results[w.key] = results[w.key] + power.Mul(weight) }` -/
def addWeights (mul : Int → Int → Int) (vp : Int) : List Weighted → (Nat → Int) → Option (Nat → Int)
  | [], r => some r
  | w :: ws, r =>
    match w.weight with
    | none => none
    | some x => addWeights mul vp ws (upd r w.key (r w.key + mul vp x))

def tallyStep (mul : Int → Int → Int) (a : TallyAcc) (v : ValInfo) : Option TallyAcc :=
  if v.vote.isEmpty then some a   -- `if len(val.PoolWeights) == 0 { continue }`
  else match v.power with
    | none => none
    | some vp =>
      match addWeights mul vp v.vote a.results with
      | none => none
      | some r => some { results := r, total := a.total + vp }

def tallyLoop (mul : Int → Int → Int) (a : TallyAcc) (vals : List ValInfo) : Option TallyAcc := foldO (tallyStep mul) a vals

/-! ## keeper_tally.go `NewTallyResultFromMap` + `sort.SliceStable(tallyResults, by PoolId)` in `Tally` -/

structure TallyResult where
  poolId : Nat
  count : Int
  deriving DecidableEq, Repr

/-- the loop: `tallyResults = append(tallyResults, TallyResult{poolId, count.TruncateInt()})` in iteration order -/
def fromMap (trunc : Int → Int) (entries : List (Nat × Int)) : List TallyResult :=
  entries.foldl (fun acc e => acc ++ [{ poolId := e.1, count := trunc e.2 }]) []

def lePool (a b : TallyResult) : Bool := decide (a.poolId ≤ b.poolId)

/-- `sort.SliceStable` = a stable sort; `List.mergeSort` is stable. -/
def sortByPool (l : List TallyResult) : List TallyResult := l.mergeSort lePool

/-- what `Tally` returns -/
def tallyResults (trunc : Int → Int) (entries : List (Nat × Int)) : List TallyResult := sortByPool (fromMap trunc entries)

/-! ## app/app.go `BlockedAddresses`: `for addr := range GetMaccPerms() { result[addr] = true }`;
app/ibc.go `RegisterIBC`: `for _, m := range modules { m.RegisterInterfaces(registry) }` (registry = set of type URLs) -/

def setLoop (init : String → Bool) (keys : List String) : String → Bool := keys.foldl (fun m k => upd m k true) init

/-- registering one module adds its type URLs to the registry -/
def registerLoop (urls : String → List String) (init : String → Bool) (mods : List String) : String → Bool :=
  mods.foldl (fun m k => setLoop m (urls k)) init

/-! ## Site identity (matches `Gen.Facts.MapRangeSite`): file, function, loop hash, hash of the statements that consume what the loop wrote -/

structure SiteKey where
  file : String
  fn : String
  hash : String
  useHash : String
  deriving DecidableEq, Repr

end Sunrise.Determinism
