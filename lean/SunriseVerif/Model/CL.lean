import SunriseVerif.Model.Bank
import SunriseVerif.Model.DecCoins
import SunriseVerif.Model.TickMath
/-!
  Concentrated-liquidity pool module (x/liquiditypool keeper), hand-written model mirroring the stores one-to-one:
  pools, positions, tick infos (sorted by tick index = the byte order of the N/P key encoding), fee accumulators and
  accumulator positions, over the Bank model.  Arithmetic goes through the REGENERATED kernels (Gen/KernelsCL).
  Handlers return `Res`; a handler that fails leaves the state unchanged (transaction atomicity is applied by `exec`).
-/
namespace Sunrise.CL
open Sunrise Sunrise.TickMath Sunrise.Gen.KernelsCL

structure Pool where
  id : Nat
  base : Denom
  quote : Denom
  feeRate : Dec
  tp : TickParams
  tick : Int
  sqrtP : Dec
  liq : Dec
deriving Repr, Inhabited

structure Position where
  id : Nat
  pool : Nat
  owner : Addr
  lower : Int
  upper : Int
  liq : Dec
deriving Repr, Inhabited

structure TickInfo where
  pool : Nat
  tick : Int
  gross : Dec
  net : Dec
  feeGrowth : DecCoins
deriving Repr, Inhabited

structure Accum where
  pool : Nat
  value : DecCoins
  totalShares : Dec
deriving Repr, Inhabited

structure AccPos where
  posId : Nat
  pool : Nat
  shares : Dec
  perShare : DecCoins
  unclaimed : DecCoins
deriving Repr, Inhabited

/-- GHOST: bookkeeping events of the swap loop, in order: a fee charged at the current active liquidity, a tick crossing
    (upwards = quote-for-base), a cursor move between initialised ticks.  Recorded for the lock-step comparison with the
    accrual abstraction (`CLAccrual`); no handler reads it. -/
inductive SwapEv where
  | fee (f : Int)
  | step (next amtIn amtOut : Int)      -- raw sqrt price after the step and the raw amounts of the step (fee excluded)
  | cross (up : Bool) (t : Int)
  | move (t : Int)
deriving Repr, Inhabited

structure St where
  pools : List Pool := []
  positions : List Position := []
  ticks : List TickInfo := []          -- sorted by (pool, tick)
  accums : List Accum := []
  accPos : List AccPos := []
  nextPool : Nat := 0
  nextPos : Nat := 0
  bank : Bank := Bank.empty
  lastTrace : List SwapEv := []      -- GHOST: bookkeeping events of the last executed swap (read by the driver only)
deriving Inhabited

def poolAddr (id : Nat) : Addr := s!"pool:{id}"
def feesAddr (id : Nat) : Addr := s!"poolfees:{id}"
def sendDisabled (d : Denom) : Bool := d == "uvrise"

-- ------------------------------------------------------------------------------------------ store helpers
def getPool (s : St) (id : Nat) : Option Pool := s.pools.find? (·.id == id)
def setPool (s : St) (p : Pool) : St := { s with pools := s.pools.map fun q => if q.id == p.id then p else q }
def getPosition (s : St) (id : Nat) : Option Position := s.positions.find? (·.id == id)
def setPosition (s : St) (p : Position) : St :=
  if s.positions.any (·.id == p.id) then { s with positions := s.positions.map fun q => if q.id == p.id then p else q }
  else { s with positions := s.positions ++ [p] }
def removePosition (s : St) (id : Nat) : St := { s with positions := s.positions.filter (·.id != id) }
def poolHasPosition (s : St) (pool : Nat) : Bool := s.positions.any (·.pool == pool)

def getAccum (s : St) (pool : Nat) : Option Accum := s.accums.find? (·.pool == pool)
def setAccum (s : St) (a : Accum) : St := { s with accums := s.accums.map fun q => if q.pool == a.pool then a else q }
def getAccPos (s : St) (pos : Nat) : Option AccPos := s.accPos.find? (·.posId == pos)
def setAccPos (s : St) (a : AccPos) : St :=
  if s.accPos.any (·.posId == a.posId) then { s with accPos := s.accPos.map fun q => if q.posId == a.posId then a else q }
  else { s with accPos := s.accPos ++ [a] }
def delAccPos (s : St) (pos : Nat) : St := { s with accPos := s.accPos.filter (·.posId != pos) }

def tickLt (a b : TickInfo) : Bool := a.pool < b.pool || (a.pool == b.pool && a.tick < b.tick)
def findTick (s : St) (pool : Nat) (t : Int) : Option TickInfo := s.ticks.find? fun x => x.pool == pool && x.tick == t
def insertTick : List TickInfo → TickInfo → List TickInfo
  | [], t => [t]
  | h :: r, t =>
    if h.pool == t.pool && h.tick == t.tick then t :: r
    else if tickLt t h then t :: h :: r
    else h :: insertTick r t
def setTick (s : St) (t : TickInfo) : St := { s with ticks := insertTick s.ticks t }
def removeTick (s : St) (pool : Nat) (t : Int) : St :=
  { s with ticks := s.ticks.filter fun x => !(x.pool == pool && x.tick == t) }

/-- Pool.HasPosition: price 0 and tick 0 mean "no position" -/
def poolLive (p : Pool) : Bool := !(p.sqrtP.isZero && p.tick == 0)

-- ------------------------------------------------------------------------------------------ fee growth
def calculateFeeGrowth (target : Int) (tickGrowth : DecCoins) (cur : Int) (global : DecCoins) (isUpper : Bool) : Res DecCoins :=
  if (isUpper && cur ≥ target) || (!isUpper && cur < target) then DecCoins.sub global tickGrowth
  else .ok tickGrowth

/-- getInitialFeeGrowth / NewTickInfo (GetTickInfo of an absent tick) -/
def getTickInfo (s : St) (pool : Nat) (t : Int) : Res TickInfo :=
  match findTick s pool t with
  | some ti => .ok ti
  | none =>
    match getPool s pool with
    | none => .err "pool-not-found"
    | some p =>
      if p.tick ≥ t then
        match getAccum s pool with
        | none => .err "accum-not-found"
        | some a => .ok ⟨pool, t, Dec.zero, Dec.zero, a.value⟩
      else .ok ⟨pool, t, Dec.zero, Dec.zero, []⟩

def getFeeGrowthOutside (s : St) (pool : Nat) (lo hi : Int) : Res DecCoins := do
  let p ← match getPool s pool with | some p => Res.ok p | none => Res.err "pool-not-found"
  let lt ← getTickInfo s pool lo
  let ut ← getTickInfo s pool hi
  let a ← match getAccum s pool with | some a => Res.ok a | none => Res.err "accum-not-found"
  let above ← calculateFeeGrowth hi ut.feeGrowth p.tick a.value true
  let below ← calculateFeeGrowth lo lt.feeGrowth p.tick a.value false
  return DecCoins.add above below

/-- GetTotalRewards -/
def totalRewards (a : Accum) (p : AccPos) : Res DecCoins :=
  if !p.shares.isPositive then .ok []
  else if p.perShare.any (fun c => (a.value.amountOf c.1).raw < c.2.raw) then .ok []
  else (DecCoins.sub a.value p.perShare).bind fun d => .ok (DecCoins.add p.unclaimed (DecCoins.mulDec d p.shares))

-- ------------------------------------------------------------------------------------------ UpsertTick / UpdatePosition
def upsertTick (s : St) (pool : Nat) (t : Int) (delta : Dec) (upper : Bool) : Res (St × Bool) := do
  let ti ← getTickInfo s pool t
  let gross := Dec.add ti.gross delta
  let net := if upper then Dec.sub ti.net delta else Dec.add ti.net delta
  let empty := gross.isZero && net.isZero
  return (setTick s { ti with gross := gross, net := net }, empty)

/-- Pool.CalcActualAmounts -/
def calcActualAmounts (p : Pool) (lo hi : Int) (delta : Dec) : Res (Dec × Dec) := do
  if delta.isZero then Res.err "zero-liquidity"
  let (pl, pu) ← ticksToSqrtPrice lo hi p.tp
  let roundUp := delta.isPositive
  let okB (l a b : Dec) : Res Dec := if CalcAmountBaseDelta_ok l a b roundUp then .ok (CalcAmountBaseDelta l a b roundUp) else .panic .divZero
  if IsCurrentTickInRange p.tick lo hi then
    let b ← okB delta p.sqrtP pu
    return (b, CalcAmountQuoteDelta delta p.sqrtP pl roundUp)
  else if p.tick < lo then
    let b ← okB delta pl pu
    return (b, Dec.zero)
  else
    return (Dec.zero, CalcAmountQuoteDelta delta pl pu roundUp)

/-- SetAccumulatorPositionFeeAccumulator -/
def setAccumPositionFee (s : St) (pool : Nat) (lo hi : Int) (posId : Nat) (delta : Dec) : Res St := do
  let a ← match getAccum s pool with | some a => Res.ok a | none => Res.err "accum-not-found"
  let outside ← getFeeGrowthOutside s pool lo hi
  let inside := (DecCoins.safeSub a.value outside).1
  match getAccPos s posId with
  | none =>
    if !delta.isPositive then Res.err "non-positive-liquidity"
    else
      let s1 := setAccPos s ⟨posId, pool, delta, inside, []⟩
      return setAccum s1 { a with totalShares := Dec.add a.totalShares delta }
  | some ap =>
    -- updatePositionToInitValuePlusGrowthOutside
    let ap1 := { ap with perShare := DecCoins.add ap.perShare outside }
    -- UpdatePositionIntervalAccumulation
    if delta.isZero then Res.err "zero-shares"
    else if delta.isNegative then
      let rm := Dec.neg delta
      if rm.raw > ap1.shares.raw then Res.err "remove-more-than-existing"
      else
        let unclaimed ← totalRewards a ap1
        let s1 := setAccPos s { ap1 with perShare := inside, shares := Dec.sub ap1.shares rm, unclaimed := unclaimed }
        return setAccum s1 { a with totalShares := Dec.sub a.totalShares rm }
    else
      let unclaimed ← totalRewards a ap1
      let s1 := setAccPos s { ap1 with perShare := inside, shares := Dec.add ap1.shares delta, unclaimed := unclaimed }
      return setAccum s1 { a with totalShares := Dec.add a.totalShares delta }

/-- UpdatePosition → (state, amountBase, amountQuote, lowerEmpty, upperEmpty) -/
def updatePosition (s : St) (pool : Nat) (lo hi : Int) (delta : Dec) (posId : Nat) : Res (St × Int × Int × Bool × Bool) := do
  let (s1, loEmpty) ← upsertTick s pool lo delta false
  let (s2, hiEmpty) ← upsertTick s1 pool hi delta true
  let p ← match getPool s2 pool with | some p => Res.ok p | none => Res.err "pool-not-found"
  let pos ← match getPosition s2 posId with | some p => Res.ok p | none => Res.err "position-not-found"
  let liq := Dec.add pos.liq delta
  if liq.isNegative then Res.err "negative-liquidity"
  let s3 := if liq.isZero then removePosition s2 posId else setPosition s2 { pos with liq := liq }
  let (ab, aq) ← calcActualAmounts p lo hi delta
  let s4 :=
    if !poolHasPosition s3 pool then
      -- resetPool: price, tick and in-range liquidity are cleared
      setPool s3 { p with sqrtP := Dec.zero, tick := 0, liq := Dec.zero }
    else if IsCurrentTickInRange p.tick lo hi then setPool s3 { p with liq := Dec.add p.liq delta }
    else setPool s3 p
  let s5 ← setAccumPositionFee s4 pool lo hi posId delta
  return (s5, Dec.truncateInt ab, Dec.truncateInt aq, loEmpty, hiEmpty)

-- ------------------------------------------------------------------------------------------ claims
/-- prepareClaimableFees → (state, claimed integer coins) -/
def prepareClaimableFees (s : St) (posId : Nat) : Res (St × List (String × Int)) := do
  let pos ← match getPosition s posId with | some p => Res.ok p | none => Res.err "position-not-found"
  let a ← match getAccum s pos.pool with | some a => Res.ok a | none => Res.err "accum-not-found"
  let ap ← match getAccPos s posId with | some p => Res.ok p | none => Res.err "fee-position-not-found"
  let outside ← getFeeGrowthOutside s pos.pool pos.lower pos.upper
  -- updateAccumAndClaimRewards
  let ap1 := { ap with perShare := DecCoins.add ap.perShare outside }
  let total ← totalRewards a ap1
  let (claimed, dust) := DecCoins.truncateDecimal total
  let s1 := if ap1.shares.isZero then delAccPos s posId else setAccPos s { ap1 with perShare := a.value, unclaimed := [] }
  let s2 := match getAccPos s1 posId with
    | some ap2 => setAccPos s1 { ap2 with perShare := (DecCoins.safeSub a.value outside).1 }
    | none => s1
  if !dust.isZero then
    let a2 ← match getAccum s2 pos.pool with | some a => Res.ok a | none => Res.err "accum-not-found"
    if !a2.totalShares.isZero then
      let per ← DecCoins.quoDecTruncate dust a2.totalShares
      return (setAccum s2 { a2 with value := DecCoins.add a2.value per }, claimed)
    else return (s2, claimed)
  else return (s2, claimed)

def sendCoins (b : Bank) (src dst : Addr) (cs : List (String × Int)) : Res Bank :=
  cs.foldl (fun (r : Res Bank) c => r.bind fun b => b.send src dst c.1 c.2) (.ok b)

def canSendAll (b : Bank) (src : Addr) (cs : List (String × Int)) : Bool := cs.all fun c => b.bal src c.1 ≥ c.2

/-- collectFees -/
def collectFees (s : St) (sender : Addr) (posId : Nat) : Res (St × List (String × Int)) := do
  let pos ← match getPosition s posId with | some p => Res.ok p | none => Res.err "position-not-found"
  if sender ≠ pos.owner then Res.err "not-position-owner"
  let (s1, claimed) ← prepareClaimableFees s posId
  if claimed.isEmpty then return (s1, [])
  -- SendCoins is all-or-nothing over the coin set
  if !canSendAll s1.bank (feesAddr pos.pool) claimed then Res.err "insufficient-funds"
  let b ← sendCoins s1.bank (feesAddr pos.pool) sender claimed
  return ({ s1 with bank := b }, claimed)

-- ------------------------------------------------------------------------------------------ messages
/-- sdk.ValidateDenom: [a-zA-Z][a-zA-Z0-9/:._-]{2,127} -/
def validDenom (d : String) : Bool :=
  let cs := d.toList
  match cs with
  | [] => false
  | c :: rest =>
    c.isAlpha && cs.length ≥ 3 && cs.length ≤ 128 &&
    rest.all fun x => x.isAlphanum || x == '/' || x == ':' || x == '.' || x == '_' || x == '-'

/-- Msg/CreatePool validation (as fixed): denoms valid, fee ∈ [0,1), ratio > 1, offset ∈ [0,1) -/
def createPoolValid (base quote : Denom) (fee ratio offset : Dec) : Bool :=
  validDenom base && validDenom quote && !fee.isNegative && fee.raw < PREC && ratio.raw > PREC
    && !offset.isNegative && offset.raw < PREC

def createPool (s : St) (base quote : Denom) (fee ratio offset : Dec) : St × Nat :=
  let id := s.nextPool
  ({ s with pools := s.pools ++ [⟨id, base, quote, fee, ⟨ratio, offset⟩, 0, Dec.zero, Dec.zero⟩],
            accums := s.accums ++ [⟨id, [], Dec.zero⟩], nextPool := id + 1 }, id)

def checkTicks (lo hi : Int) : Bool := lo < hi && lo ≥ TICK_MIN && hi ≤ TICK_MAX

structure CreatePosOut where
  id : Nat
  base : Int
  quote : Int
  liq : Dec

def createPosition (s : St) (sender : Addr) (pool : Nat) (lo hi : Int) (dBase : Denom) (aBase : Int) (dQuote : Denom) (aQuote : Int)
    (minBase minQuote : Int) : Res (St × CreatePosOut) := do
  let p0 ← match getPool s pool with | some p => Res.ok p | none => Res.err "pool-not-found"
  if !checkTicks lo hi then Res.err "invalid-tickers"
  if p0.base ≠ dBase then Res.err "invalid-base-denom"
  if p0.quote ≠ dQuote then Res.err "invalid-quote-denom"
  if aBase = 0 ∧ aQuote = 0 then Res.err "invalid-token-amounts"
  if aBase < 0 ∨ aQuote < 0 then Res.err "negative-token-amount"
  let (pl, pu) ← ticksToSqrtPrice lo hi p0.tp
  let (s1, p) ←
    if !poolLive p0 then do
      -- initFirstPositionForPool
      if !(aBase > 0) ∨ !(aQuote > 0) then Res.err "invalid-first-position"
      let sp ← sqrtPriceFromQuoteBase aQuote aBase
      let t ← sqrtPriceToTick sp p0.tp
      let p1 := { p0 with sqrtP := sp, tick := t }
      pure (setPool s p1, p1)
    else pure (s, p0)
  if !GetLiquidityFromAmounts_ok p.sqrtP pl pu aBase aQuote then Res.panic .divZero
  let delta := GetLiquidityFromAmounts p.sqrtP pl pu aBase aQuote
  if delta.isZero then Res.err "zero-liquidity"
  let posId := s1.nextPos
  let s2 := { setPosition s1 ⟨posId, pool, sender, lo, hi, Dec.zero⟩ with nextPos := posId + 1 }
  let (s3, ab, aq, _, _) ← updatePosition s2 pool lo hi delta posId
  if ab < minBase then Res.err "insufficient-amount-put"
  if aq < minQuote then Res.err "insufficient-amount-put"
  if sendDisabled dBase ∨ sendDisabled dQuote then Res.err "send-disabled"
  -- sdk.Coins{base}.Add(quote) then SendCoins (all-or-nothing)
  if s3.bank.bal sender dBase < ab ∨ s3.bank.bal sender dQuote < aq then Res.err "insufficient-funds"
  let b1 ← s3.bank.send sender (poolAddr pool) dBase ab
  let b2 ← b1.send sender (poolAddr pool) dQuote aq
  let liq := match getPosition s3 posId with | some q => q.liq | none => Dec.zero
  return ({ s3 with bank := b2 }, ⟨posId, ab, aq, liq⟩)

def iabs (i : Int) : Int := if i < 0 then -i else i

/-- Keeper.DecreaseLiquidity -/
def decreaseLiquidity (s : St) (sender : Addr) (posId : Nat) (liq : Dec) : Res (St × Int × Int) := do
  let pos ← match getPosition s posId with | some p => Res.ok p | none => Res.err "position-not-found"
  if sender ≠ pos.owner then Res.err "unauthorized"
  if liq.isNegative then Res.err "negative-token-amount"
  if pos.liq.raw < liq.raw then Res.err "insufficient-liquidity"
  let p ← match getPool s pos.pool with | some p => Res.ok p | none => Res.err "pool-not-found"
  let (s1, _) ← collectFees s sender posId
  let (s2, ab, aq, loE, hiE) ← updatePosition s1 pos.pool pos.lower pos.upper (Dec.neg liq) posId
  let ab := iabs ab
  let aq := iabs aq
  if sendDisabled p.base ∨ sendDisabled p.quote then Res.err "send-disabled"
  if s2.bank.bal (poolAddr p.id) p.base < ab ∨ s2.bank.bal (poolAddr p.id) p.quote < aq then Res.err "insufficient-funds"
  let b1 ← s2.bank.send (poolAddr p.id) sender p.base ab
  let b2 ← b1.send (poolAddr p.id) sender p.quote aq
  let s3 := { s2 with bank := b2 }
  let s4 := if loE then removeTick s3 pos.pool pos.lower else s3
  let s5 := if hiE then removeTick s4 pos.pool pos.upper else s4
  return (s5, ab, aq)

def increaseLiquidity (s : St) (sender : Addr) (posId : Nat) (aBase aQuote minBase minQuote : Int) : Res (St × CreatePosOut) := do
  let pos ← match getPosition s posId with | some p => Res.ok p | none => Res.err "key-not-found"
  if sender ≠ pos.owner then Res.err "unauthorized"
  if aBase < 0 ∨ aQuote < 0 then Res.err "negative-token-amount"
  if aBase = 0 ∧ aQuote = 0 then Res.err "invalid-token-amounts"
  let (s1, wb, wq) ← decreaseLiquidity s sender posId pos.liq
  let p ← match getPool s1 pos.pool with | some p => Res.ok p | none => Res.err "pool-not-found"
  createPosition s1 sender pos.pool pos.lower pos.upper p.base (wb + aBase) p.quote (wq + aQuote) (wb + minBase) (wq + minQuote)

def addCoins (a b : List (String × Int)) : List (String × Int) :=
  b.foldl (fun acc c =>
    if acc.any (·.1 == c.1) then acc.map fun x => if x.1 == c.1 then (x.1, x.2 + c.2) else x
    else (acc ++ [c])) a

def claimRewards (s : St) (sender : Addr) (ids : List Nat) : Res (St × List (String × Int)) :=
  if ids.isEmpty then .err "empty-position-ids" else
  ids.foldl (fun (r : Res (St × List (String × Int))) id =>
    r.bind fun (st, tot) => (collectFees st sender id).bind fun (st', c) => .ok (st', addCoins tot c)) (.ok (s, []))

/-- AllocateIncentive: zero in-range liquidity is an error; coins move first, then the accumulator grows -/
def allocateIncentive (s : St) (pool : Nat) (sender : Addr) (coins : List (String × Int)) : Res St := do
  let p ← match getPool s pool with | some p => Res.ok p | none => Res.err "pool-not-found"
  if !poolLive p then Res.err "empty-liquidity"
  let a ← match getAccum s pool with | some a => Res.ok a | none => Res.err "accum-not-found"
  if !p.liq.isPositive then Res.err "zero-liquidity"
  if !canSendAll s.bank sender coins then Res.err "insufficient-funds"
  let b ← sendCoins s.bank sender (feesAddr pool) coins
  let growth ← DecCoins.quoDecTruncate (coins.map fun c => (c.1, Dec.ofInt c.2)) p.liq
  return setAccum { s with bank := b } { a with value := DecCoins.add a.value growth }

end Sunrise.CL

namespace Sunrise.CL
open Sunrise Sunrise.TickMath Sunrise.Gen.KernelsCL

/-! ## Swap loop (keeper_swap.go computeOutAmtGivenIn / computeInAmtGivenOut), hand-written over regenerated bucket kernels -/

structure SwapState where
  remaining : Dec
  calculated : Dec
  sqrtP : Dec
  tick : Int
  liq : Dec
  growthPerLiq : Dec      -- globalFeeGrowthPerUnitLiquidity
  feeTotal : Dec          -- globalFeeGrowth
  trace : List SwapEv := []   -- GHOST
deriving Repr, Inhabited

/-- GetSqrtPriceLimit -/
def sqrtPriceLimit (multipliedLimit : Dec) (bfq : Bool) : Res Dec :=
  if multipliedLimit.isZero then .ok (if bfq then MinSqrtPrice else MaxSqrtPrice)
  else if multipliedLimit.raw < MinMultipliedSpotPrice.raw ∨ multipliedLimit.raw > MaxMultipliedSpotPrice.raw then .err "price-out-of-bound"
  else .ok (Dec.quo (Dec.approxSqrt multipliedLimit) MultiplierSqrt)

def multipliedPriceLimit (bfq : Bool) : Dec := if bfq then MinMultipliedSpotPrice else MaxMultipliedSpotPrice

/-- ticks in iteration order for the swap direction, starting from the current tick (NextTickIterator) -/
def tickIter (s : St) (pool : Nat) (cur : Int) (bfq : Bool) : List TickInfo :=
  let ts := s.ticks.filter (·.pool == pool)
  if bfq then (ts.filter (·.tick ≤ cur)).reverse else ts.filter (·.tick > cur)

def bucketOutGivenIn (bfq : Bool) (lim fee cur tgt liq rem : Dec) : Res (Dec × Dec × Dec × Dec) :=
  if bfq then
    (if bfq_ComputeSwapWithinBucketOutGivenIn_ok lim fee cur tgt liq rem then .ok (bfq_ComputeSwapWithinBucketOutGivenIn lim fee cur tgt liq rem) else .panic .explicit)
  else
    (if qfb_ComputeSwapWithinBucketOutGivenIn_ok lim fee cur tgt liq rem then .ok (qfb_ComputeSwapWithinBucketOutGivenIn lim fee cur tgt liq rem) else .panic .explicit)

def bucketInGivenOut (bfq : Bool) (lim fee cur tgt liq rem : Dec) : Res (Dec × Dec × Dec × Dec) :=
  if bfq then
    (if bfq_ComputeSwapWithinBucketInGivenOut_ok lim fee cur tgt liq rem then .ok (bfq_ComputeSwapWithinBucketInGivenOut lim fee cur tgt liq rem) else .panic .explicit)
  else
    (if qfb_ComputeSwapWithinBucketInGivenOut_ok lim fee cur tgt liq rem then .ok (qfb_ComputeSwapWithinBucketInGivenOut lim fee cur tgt liq rem) else .panic .explicit)

def targetPrice (bfq : Bool) (lim fee p : Dec) : Dec :=
  if bfq then bfq_GetSqrtTargetPrice lim fee p else qfb_GetSqrtTargetPrice lim fee p

/-- updateFeeGrowthGlobal -/
def updateFeeGrowth (ss : SwapState) (fee : Dec) : SwapState :=
  let ss1 := { ss with feeTotal := Dec.add ss.feeTotal fee }
  if ss1.liq.isZero then ss1 else { ss1 with growthPerLiq := Dec.add ss1.growthPerLiq (Dec.quoTruncate fee ss1.liq) }

/-- swapCrossTickLogic: flips the tick's fee growth outside (when accumulators are updated), applies ±net, steps the cursor -/
def crossTick (s : St) (ss : SwapState) (bfq : Bool) (lim fee : Dec) (ti : TickInfo) (accVal : DecCoins) (denomIn : Denom) (upd : Bool) :
    Res (St × SwapState) := do
  let s1 ← if upd then do
      let g ← DecCoins.sub (DecCoins.add accVal [(denomIn, ss.growthPerLiq)]) ti.feeGrowth
      pure (setTick s { ti with feeGrowth := g })
    else pure s
  let net := if bfq then bfq_GetLiquidityDeltaSign lim fee ti.net else qfb_GetLiquidityDeltaSign lim fee ti.net
  let t := if bfq then bfq_NextTickAfterCrossing lim fee ti.tick else qfb_NextTickAfterCrossing lim fee ti.tick
  return (s1, { ss with liq := Dec.add ss.liq net, tick := t, trace := ss.trace ++ [.cross (!bfq) ti.tick] })

/-- the loop; `exactIn` selects OutGivenIn / InGivenOut bookkeeping -/
def swapLoop (exactIn bfq upd : Bool) (lim fee : Dec) (tp : TickParams) (accVal : DecCoins) (denomIn : Denom) :
    Nat → Nat → St → SwapState → List TickInfo → Res (St × SwapState)
  | 0, _, _, _, _ => .err "fuel"
  | fuel+1, noProg, s, ss, iter =>
    if !(ss.remaining.isPositive && !(ss.sqrtP == lim)) then .ok (s, ss) else
    match iter with
    | [] => .err "ran-out-of-ticks"
    | ti :: rest => do
      let start := ss.sqrtP
      let tickPrice ← match tickToSqrtPrice ti.tick tp with
        | .ok v => Res.ok v | .err _ => Res.err "tick-to-sqrt-price" | .panic k => Res.panic k
      let tgt := targetPrice bfq lim fee tickPrice
      let (next, a, b, feeCharge) ← (if exactIn then bucketOutGivenIn bfq lim fee ss.sqrtP tgt ss.liq ss.remaining
                                     else bucketInGivenOut bfq lim fee ss.sqrtP tgt ss.liq ss.remaining)
      -- exact-in: a = amountIn, b = amountOut; exact-out: a = amountOut, b = amountIn
      let (amtIn, amtOut) := if exactIn then (a, b) else (b, a)
      if next == start && !(amtIn.isZero && amtOut.isZero) then Res.err "no-sqrt-price-after-swap"
      let ss1 := if upd then { updateFeeGrowth ss feeCharge with trace := ss.trace ++ [.fee feeCharge.raw] } else ss
      let ss1 := { ss1 with trace := ss1.trace ++ [SwapEv.step next.raw amtIn.raw amtOut.raw] }
      let ss2 := if exactIn then
          { ss1 with sqrtP := next, remaining := Dec.sub ss1.remaining (Dec.add amtIn feeCharge), calculated := Dec.add ss1.calculated amtOut }
        else
          { ss1 with sqrtP := next, remaining := Dec.sub ss1.remaining amtOut, calculated := Dec.add ss1.calculated (Dec.add amtIn feeCharge) }
      let (s3, ss3, iter3) ←
        if tickPrice == next then do
          let (s', ss') ← crossTick s ss2 bfq lim fee ti accVal denomIn upd
          pure (s', ss', rest)
        else if (if bfq then tickPrice.raw > next.raw else tickPrice.raw < next.raw) then Res.err "invalid-computed-sqrt-price"
        else if !(start == next) then do
          let t ← sqrtPriceToTick next tp
          pure (s, { ss2 with tick := t, trace := ss2.trace ++ [.move t] }, iter)
        else pure (s, ss2, iter)
      let progressAmt := if exactIn then amtIn else amtOut
      if progressAmt.isZero then
        if noProg ≥ 100 then Res.err "ran-out-of-iterations"
        else swapLoop exactIn bfq upd lim fee tp accVal denomIn fuel (noProg + 1) s3 ss3 iter3
      else swapLoop exactIn bfq upd lim fee tp accVal denomIn fuel noProg s3 ss3 iter3

structure SwapOut where
  amountIn : Int
  amountOut : Int
  fees : Dec
  tick : Int
  liq : Dec
  sqrtP : Dec

def LOOP_FUEL : Nat := 100000

/-- computeOutAmtGivenIn / computeInAmtGivenOut (exactIn selects), incl. setup and final rounding -/
def computeSwap (exactIn : Bool) (s : St) (pool : Nat) (denomIn denomOut : Denom) (amount : Int) (fee mLimit : Dec) (upd : Bool) :
    Res (St × SwapOut) := do
  let p ← match getPool s pool with | some p => Res.ok p | none => Res.err "pool-not-found"
  if !poolLive p then Res.err "empty-liquidity"
  if denomOut ≠ p.base ∧ denomOut ≠ p.quote then Res.err "invalid-out-denom"
  if denomIn ≠ p.base ∧ denomIn ≠ p.quote then Res.err "invalid-in-denom"
  if denomOut = denomIn then Res.err "denom-duplication"
  let acc ← match getAccum s pool with | some a => Res.ok a | none => Res.err "accum-not-found"
  let bfq := denomIn = p.base
  let lim ← sqrtPriceLimit mLimit bfq
  let invalid := if bfq then bfq_ValidateSqrtPrice_err lim fee lim p.sqrtP else qfb_ValidateSqrtPrice_err lim fee lim p.sqrtP
  if invalid then Res.err "invalid-sqrt-price"
  let ss0 : SwapState := ⟨Dec.ofInt amount, Dec.zero, p.sqrtP, p.tick, p.liq, Dec.zero, Dec.zero, []⟩
  let (s1, ss) ← swapLoop exactIn bfq upd lim fee p.tp acc.value denomIn LOOP_FUEL 0 s ss0 (tickIter s pool p.tick bfq)
  if ss.remaining.isNegative then Res.err "over-charge"
  let s2 := if upd then { setAccum s1 { acc with value := DecCoins.add acc.value [(denomIn, ss.growthPerLiq)] } with lastTrace := ss.trace } else s1
  let (ain, aout) :=
    if exactIn then (Dec.truncateInt (Dec.ceil (Dec.sub (Dec.ofInt amount) ss.remaining)), Dec.truncateInt ss.calculated)
    else (Dec.truncateInt (Dec.ceil ss.calculated), Dec.truncateInt (Dec.sub (Dec.ofInt amount) ss.remaining))
  return (s2, ⟨ain, aout, ss.feeTotal, ss.tick, ss.liq, ss.sqrtP⟩)

/-- updatePoolForSwap -/
def updatePoolForSwap (s : St) (p : Pool) (sender : Addr) (denomIn : Denom) (amtIn : Int) (denomOut : Denom) (amtOut : Int) (o : SwapOut) : Res St := do
  let feeInt := Dec.truncateInt (Dec.ceil o.fees)
  let inNet := amtIn - feeInt
  if inNet ≤ 0 then Res.err "invalid-coins"     -- `sdk.Coins{tokenIn}` with a zero or negative amount is rejected by SendCoins (error, not panic): the fee rounded up can eat the whole input
  if sendDisabled denomIn then Res.err "send-disabled"
  let b1 ← s.bank.send sender (poolAddr p.id) denomIn inNet
  let b2 ← if feeInt ≠ 0 then b1.send sender (feesAddr p.id) denomIn feeInt else pure b1
  if sendDisabled denomOut then Res.err "send-disabled"
  let b3 ← b2.send (poolAddr p.id) sender denomOut amtOut
  if o.liq.isNegative then Res.err "negative-liquidity"
  if o.sqrtP.isNegative then Res.err "negative-sqrt-price"
  return setPool { s with bank := b3 } { p with liq := o.liq, tick := o.tick, sqrtP := o.sqrtP }

/-- Keeper.SwapExactAmountIn (pool object as read by the caller) -/
def swapExactIn (s : St) (sender : Addr) (pool : Nat) (denomIn : Denom) (amount : Int) (denomOut : Denom) (feeEnabled : Bool) : Res (St × Int) := do
  let p ← match getPool s pool with | some p => Res.ok p | none => Res.err "pool-not-found"
  if denomIn = denomOut then Res.err "denom-duplication"
  let bfq := denomIn = p.base
  let fee := if feeEnabled then p.feeRate else Dec.zero
  let (s1, o) ← computeSwap true s pool denomIn denomOut amount fee (multipliedPriceLimit bfq) true
  if o.amountIn ≠ amount then Res.err "insufficient-liquidity"   -- stopped at the price limit: no partial fill (fix 6584aed)
  if !(o.amountOut > 0) then Res.err "unexpected-calc-amount"
  let s2 ← updatePoolForSwap s1 p sender denomIn o.amountIn denomOut o.amountOut o
  return (s2, o.amountOut)

def swapExactOut (s : St) (sender : Addr) (pool : Nat) (denomOut : Denom) (amount : Int) (denomIn : Denom) (feeEnabled : Bool) : Res (St × Int) := do
  let p ← match getPool s pool with | some p => Res.ok p | none => Res.err "pool-not-found"
  if denomIn = denomOut then Res.err "denom-duplication"
  let bfq := denomIn = p.base
  let fee := if feeEnabled then p.feeRate else Dec.zero
  let (s1, o) ← computeSwap false s pool denomIn denomOut amount fee (multipliedPriceLimit bfq) true
  if o.amountOut ≠ amount then Res.err "insufficient-liquidity"  -- stopped at the price limit: no partial fill (fix 6584aed)
  if !(o.amountIn > 0) then Res.err "unexpected-calc-amount"
  let s2 ← updatePoolForSwap s1 p sender denomIn o.amountIn denomOut o.amountOut o
  return (s2, o.amountIn)

/-- the two quote queries (unbounded price limit, no accumulator updates, state discarded) -/
def quoteExactIn (s : St) (pool : Nat) (denomIn : Denom) (amount : Int) (denomOut : Denom) (feeEnabled : Bool) : Res Int := do
  let p ← match getPool s pool with | some p => Res.ok p | none => Res.err "pool-not-found"
  let fee := if feeEnabled then p.feeRate else Dec.zero
  let (_, o) ← computeSwap true s pool denomIn denomOut amount fee Dec.zero false
  if o.amountIn ≠ amount then Res.err "insufficient-liquidity"
  return o.amountOut

def quoteExactOut (s : St) (pool : Nat) (denomOut : Denom) (amount : Int) (denomIn : Denom) (feeEnabled : Bool) : Res Int := do
  let p ← match getPool s pool with | some p => Res.ok p | none => Res.err "pool-not-found"
  let fee := if feeEnabled then p.feeRate else Dec.zero
  let (_, o) ← computeSwap false s pool denomIn denomOut amount fee Dec.zero false
  if o.amountOut ≠ amount then Res.err "insufficient-liquidity"
  return o.amountIn

end Sunrise.CL
