import SunriseVerif.Model.Dec
import SunriseVerif.Model.Bank
import SunriseVerif.Model.Convert
import SunriseVerif.Lemmas.Dec
import SunriseVerif.Gen.KernelsCL
import SunriseVerif.Spec.C05
import SunriseVerif.Props.C05
import SunriseVerif.Props.C13
