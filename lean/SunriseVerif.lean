import SunriseVerif.Model.Dec
import SunriseVerif.Gen.KernelsCL
