"""C16 — governance tally ignores non-voting stake without distorting turnout."""
import json, os, re, subprocess
from lib import fw

MODULES = ["SunriseVerif.Props.C16", "SunriseVerif.Witness.C16", "SunriseVerif.Props.TieGov"]


def known_features(f):
    """features of an oracle failure for known-finding matching: the class/cause the harness computed from queried state"""
    feats = {}
    for k in ("class", "cause"):
        m = re.search(r"\b%s=([a-z_0-9]+)" % k, f["detail"])
        if m:
            feats[k] = m.group(1)
    return feats


def run(ctx):
    if not ctx.translate():
        return
    ok = ctx.prove(MODULES, needs_gen=["KernelsTieGov"])
    res = fw.corr(ctx, "govtally", 1200 if ctx.thorough() else 40)
    fw.report_corr(ctx, "govtally", res, known_features)
    if res is not None:
        st = res["stats"]
        # the generator must have reached the extremes the property quantifies over
        for need in ("nv.0", "nv.100", "tally.ok", "scvote.present", "op.slash.ok", "op.jail.ok", "end.pass", "end.reject"):
            if not st.get(need):
                ctx.fail("infra", "generator coverage: no history reached " + need, json.dumps(st))
    if ctx.thorough() and ok:
        ctx.leanchecker(MODULES)


def replay(ctx, path):
    """print the replay; re-run the recorded `> tally` lines on the Lean model and the whole seed on the real app"""
    txt = open(path).read()
    print(txt)
    rc = 0
    try:
        rp = json.loads(txt)
    except ValueError:
        return 0
    for fi in rp.get("failing_inputs", []):
        inp = fi.get("input") or {}
        hist = inp.get("history") or []
        drv = ctx.driver()
        if drv and hist:
            out = ctx.run_driver(drv, "suite govtally\n" + "\n".join(h[2:] for h in hist) + "\n")
            print("model:", *out, sep="\n  ")
        svh = ctx.gobuild("svh")
        if svh and "seed" in inp:
            p = subprocess.run([svh, "-seed", str(inp["seed"]), "-n", "40", "govtally"], stdout=subprocess.PIPE)
            bad = [l for l in p.stdout.decode().splitlines() if l.startswith("! ") and " FAIL " in l and l.split()[1] == fi.get("check")]
            print("implementation (seed %s): %d failing oracle lines for %s" % (inp["seed"], len(bad), fi.get("check")))
            for l in bad[:5]:
                print("  " + l[:600])
            rc = 1 if bad else rc
    return rc
