"""C20 — erasure coding recovers from any <= parity erasures (error beyond), validity proofs bind to one double hash,
shard assignment is a deterministic, duplicate-free, in-range function of the validator address."""
import json, os, re
from lib import fw

MODULES = ["SunriseVerif.Props.C20", "SunriseVerif.Props.C20Field", "SunriseVerif.Props.C20Invert", "SunriseVerif.Witness.C20"]
SUITE = "rs"


def features(f):
    d = f.get("detail", "")
    if f["check"] == "zk_binds":
        m = re.search(r"class=(\S+)", d)
        c = m.group(1) if m else "?"
        return {"y_class": "noncanonical_alias" if c.startswith("alias_") else c}
    if f["check"] == "zk_proof_decode_bounded":
        m = re.search(r"outcome=(\S+)", d)
        return {"outcome": m.group(1) if m else "?", "crafted": "commitments_len_prefix"}
    if f["check"] == "rs_encode_empty":
        return {"blob_len": 0, "outcome": d.split("->")[-1].strip()}
    return {}


def report(ctx, res):
    """like fw.report_corr, but a model/implementation disagreement carries the disagreeing op line as its replay
    (every op of this suite is self-contained: `svh -replay <file> rs` re-executes it on the real code)"""
    if res is None:
        return
    for m in res["mismatches"][:3]:
        op = m["history"][-1][2:] if m["history"] else None
        ctx.fail("correspondence", "model and implementation disagree in suite " + SUITE,
                 "op: %s | impl: %s | model: %s" % ((op or "")[:200], m["impl"][:200], m["model"][:200]),
                 replay={"suite": SUITE, "seed": ctx.seed, "tier": ctx.tier, "ops": [op], "impl": m["impl"][:2000], "model": m["model"][:2000]} if op else None)
    seen = set()
    for f in res["oracle_fails"]:
        feats = features(f)
        key = (f["check"], json.dumps(feats, sort_keys=True))
        if key in seen:
            continue
        seen.add(key)
        ops = [x[2:] for x in f["history"][-1:]]
        ctx.fail("oracle", "%s: %s" % (f["check"], f["detail"][:300]), "",
                 replay={"suite": SUITE, "seed": ctx.seed, "tier": ctx.tier, "ops": ops, "check": f["check"], "detail": f["detail"][:2000]},
                 features=feats, check=f["check"])


def run(ctx):
    if not ctx.translate():
        return
    ok = ctx.prove(MODULES)
    n = 200 if ctx.thorough() else 8
    res = fw.corr(ctx, SUITE, n)
    report(ctx, res)
    if res is not None:
        st = res["stats"]
        # the generator must have exercised what the statement quantifies over
        need = ["enc.ok", "enc.err", "rec.small.ok", "rec.small.err", "rec.large.ok", "rec.large.err", "idx.ok", "idx.panic",
                "zkverify.same.ok", "zkverify.other_hash.err", "zkprove.wrong.err"]
        missing = [k for k in need if not st.get(k)]
        if missing:
            ctx.fail("infra", "rs suite did not reach: " + ",".join(missing), "")
    if ctx.thorough() and ok:
        ctx.leanchecker(MODULES)


def replay(ctx, path):
    """re-execute the ops of a replay file on the real code and on the model; print both"""
    rp = json.load(open(path))
    print(json.dumps(rp, indent=1)[:4000])
    ops = []
    for fi in rp.get("failing_inputs", []):
        ops += [o for o in (fi.get("input") or {}).get("ops", []) if o]
    if not ops:
        return 0
    svh, drv = ctx.gobuild("svh"), ctx.driver()
    if not svh or not drv:
        return 2
    of = os.path.join(ctx.tmp, "replay.ops")
    open(of, "w").write("\n".join(ops) + "\n")
    # address-space limit: a crafted proof makes the decoder ask for hundreds of GiB (fatal error, not a panic)
    rc, so, se, dt = fw.sh("ulimit -v 6291456; exec %s -replay %s %s" % (svh, of, SUITE))
    if rc != 0:
        print("implementation process died: rc=%d %s" % (rc, (se or so)[:300]))
        return 1
    impl = [l for l in so.splitlines() if l and l[0] not in ">#!"]
    model = ctx.run_driver(drv, "suite %s\n" % SUITE + "\n".join(ops) + "\n")
    bad = 0
    for o, a, b in zip(ops, impl, model):
        print("op    %s\nimpl  %s\nmodel %s" % (o[:300], a[:300], b[:300]))
        bad += a != b
    for l in so.splitlines():
        if l.startswith("! ") and " FAIL " in l:
            print(l[:400])
            bad += 1
    return 1 if bad else 0
