"""C04 — pool liquidity bookkeeping matches the set of open positions."""
from lib import fw
from checks import _cl

MODULES = ["SunriseVerif.Props.C04", "SunriseVerif.Props.C04Interval", "SunriseVerif.Props.C04Refine", "SunriseVerif.Props.C04RefineLoop", "SunriseVerif.Props.C04Store", "SunriseVerif.Props.C04Grid", "SunriseVerif.Props.C04IntervalW"]


def run(ctx):
    if not ctx.translate():
        return
    ok = ctx.prove(MODULES, needs_gen=["KernelsCL"])
    mism = ctx.kernel_diff("cl", 6000 if ctx.thorough() else 300)
    if mism:
        ctx.fail("correspondence", "kernel differential (Go vs Lean: tick key bytes, in-range test, regenerated kernels)", str(mism[:3]),
                 replay={"kernel_mismatches": mism[:20]})
    _cl.run_cl(ctx, "C04")
    bad = fw.pred_search(ctx, "C04", (20000 if ctx.thorough() else 2000) if ok else 60000)
    if bad:
        ctx.fail("oracle", "kernel statement false on concrete operands", str(bad[:3]), replay={"false_statements": bad[:20]},
                 check="kernel_statement", features={"pred": bad[0]["pred"]})
    if ctx.thorough() and ok:
        ctx.leanchecker(MODULES)


def replay(ctx, path):
    print(open(path).read())
    return 0
