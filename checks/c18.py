"""C18 — fees: only fee token or bypass denoms, fully collected; burn is exact."""
import json, os
from lib import fw

MODULES = ["SunriseVerif.Props.C18", "SunriseVerif.Props.ParamGuards", "SunriseVerif.Props.ParamGuardsFee", "SunriseVerif.Props.TieFee"]


def run(ctx):
    if not ctx.translate():
        return
    ok = ctx.prove(MODULES, needs_gen=["KernelsFee", "KernelsGovFee", "KernelsParamsFee", "KernelsTieFee"])
    # the real fee decorator (direct, CheckTx, FinalizeBlock) and Keeper.Burn vs the Lean model + property oracles
    res = fw.corr(ctx, "fee", 300 if ctx.thorough() else 10)
    fw.report_corr(ctx, "fee", res)
    if res is not None:
        st = res["stats"]
        # generator health: every path must have produced accepted and rejected transactions
        for k in ("direct.check.ok", "direct.check.err", "checktx.ok", "checktx.err", "block.ok", "block.err", "burn.ok"):
            if st.get(k, 0) == 0:
                ctx.fail("infra", "fee suite generator produced no case of kind " + k, json.dumps(st))
    # kernel statements on concrete operands (cheap when proofs hold; the failing-input search when they do not)
    bad = fw.pred_search(ctx, "C18", (20000 if ctx.thorough() else 2000) if ok else 40000)
    if bad:
        ctx.fail("oracle", "kernel statement false on concrete operands", str(bad[:3]), replay={"false_statements": bad[:20]},
                 check="kernel_statement", features={"pred": bad[0]["pred"]})
    if ctx.thorough() and ok:
        ctx.leanchecker(MODULES)


def replay(ctx, path):
    """print the replay file; if it carries a history, re-run the suite with the same seed and show the failing lines"""
    txt = open(path).read()
    print(txt)
    try:
        rp = json.loads(txt)
    except Exception:
        return 0
    seed = rp.get("seed", ctx.seed)
    svh = ctx.gobuild("svh")
    if not svh:
        return 1
    rc, so, se, dt = fw.sh([svh, "-seed", str(seed), "-n", "40" if rp.get("tier") == "thorough" else "10", "fee"])
    fails = [l for l in so.splitlines() if l.startswith("! ") and " FAIL " in l]
    print("\n".join(fails[:20]) or "no oracle failure on the current tree for seed %s" % seed)
    return 1 if fails else 0
