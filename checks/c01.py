"""C01 — block processing never halts: no hook error, panic or unmetered hang."""
import re
from lib import fw

MODULES = ["SunriseVerif.Props.C01", "SunriseVerif.Props.C01DA", "SunriseVerif.Props.C01Gauge", "SunriseVerif.Props.C01Proposal", "SunriseVerif.Props.ParamGuards", "SunriseVerif.Props.ParamGuardsDA",
           # the decimal library's range assertions: no range panic of the pool arithmetic inside explicit input boxes
           "SunriseVerif.Props.C15Range",
           "SunriseVerif.Props.TieGauge", "SunriseVerif.Props.TieDA", "SunriseVerif.Props.TieShare"]


def feats(f):
    m = re.search(r"scenario=(\S+)", f["detail"])
    return {"scenario": m.group(1) if m else ""}


def run(ctx):
    if not ctx.translate():
        return
    ok = ctx.prove(MODULES, needs_gen=["KernelsCL", "KernelsParamsDA", "KernelsTieGauge", "KernelsTieDA", "KernelsTieShare"])
    # directed halt-hunting scenarios on the real application (real blocks, watchdog)
    res = fw.corr(ctx, "halt", 1, driver_suite=False, timeout=900)
    fw.report_corr(ctx, "halt", res, known_features=feats)
    # the bulk concentrated-liquidity histories must not panic or stall either (no model comparison needed here)
    res2 = fw.corr(ctx, "cl", 150 if ctx.thorough() else 4, timeout=1500)
    if res2 is not None:
        res2["oracle_fails"] = [f for f in res2["oracle_fails"] if f["check"] in ("no_halt", "no_hang")]
        fw.report_corr(ctx, "cl", res2)
    # every other suite that drives real blocks reports a FinalizeBlock error / panic as `no_halt`: any such verdict is a
    # violation of THIS property, whichever module's hook caused it (known ones are matched by their class features)
    sizes = {"share": (12, 200), "da": (60, 800), "gauge": (2, 60), "mint": (2, 40), "govtally": (3, 60), "fee": (2, 20)}
    for suite, (nq, nt) in sizes.items():
        r = fw.corr(ctx, suite, nt if ctx.thorough() else nq, driver_suite=False, timeout=1500)
        if r is None:
            continue
        r["oracle_fails"] = [f for f in r["oracle_fails"] if f["check"] in ("no_halt", "no_hang")]
        fw.report_corr(ctx, suite, r, known_features=lambda f: {"suite_class": _halt_class(f)})
    # app/abci_proposal.go (PrepareProposal / ProcessProposal / PreBlocker of the DA handler): model vs the real handler line by
    # line (index order, prepared bytes, verdicts on honest and byzantine proposals, post-PreBlocker stores, the wrapper codec),
    # oracles no_halt / honest_accepted / prepare_within_max_bytes / finalize_independent_of_proposals / preblock_sets_listed
    rp = fw.corr(ctx, "proposal", 14 if ctx.thorough() else 2, timeout=1500)
    fw.report_corr(ctx, "proposal", rp, known_features=lambda f: {"class": _halt_class(f)})
    if rp is not None:
        # a disagreement comes with the concrete operation (state dump + proposal bytes) on which the handler left the model
        for m in rp["mismatches"][:1]:
            for f in ctx.failures:
                if f.kind == "correspondence" and f.what.endswith("suite proposal") and f.replay is None:
                    f.replay = {"suite": "proposal", "seed": ctx.seed, "impl": m["impl"], "model": m["model"], "history": m["history"][-6:]}
        st = rp["stats"]
        # the generator must have reached the situations the theorems are about (otherwise the agreement is vacuous)
        for k in ("block.with_verified_items", "byz.verdict_reject", "byz.verdict_accept", "preblock.height_written",
                  "decided.byzantine", "entry.repeated_field1", "entry.field_number_mod_2_32", "byz.splitter_before_user_txs"):
            if st.get(k, 0) == 0:
                ctx.fail("correspondence", "proposal suite never reached " + k, "generator coverage", replay=None)
    if ctx.thorough() and ok:
        ctx.leanchecker(MODULES)


def _halt_class(f):
    m = re.search(r"class=(\S+)", f["detail"])
    return m.group(1) if m else ""


def replay(ctx, path):
    print(open(path).read())
    return 0
