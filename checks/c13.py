"""C13 — RISE/vRISE supply: 1:1 conversion, capped emission, vRISE not transferable."""
import json
from lib import fw

MODULES = ["SunriseVerif.Props.C13", "SunriseVerif.Witness.C13", "SunriseVerif.Props.ParamGuards", "SunriseVerif.Props.ParamGuardsLI", "SunriseVerif.Props.TieMint"]


def features(f):
    """input class of an oracle failure (for known-finding matching): gap=le1y|gt1y on the mint oracles"""
    out = {}
    for tok in f["detail"].split():
        if tok.startswith("gap="):
            out["gap"] = tok[4:]
    return out


def run(ctx):
    if not ctx.translate():
        return
    ok = ctx.prove(MODULES, needs_gen=["KernelsMint", "KernelsGovFee", "FactsBan", "KernelsParamsLI", "KernelsTieMint"])
    # part 1: conversion (model vs real bank + message router)
    res = fw.corr(ctx, "convert", 200 if ctx.thorough() else 8)
    fw.report_corr(ctx, "convert", res)
    # part 2: minting — real blocks at irregular intervals, year boundaries, supplies near the cap (model vs real app + oracles)
    res = fw.corr(ctx, "mint", 600 if ctx.thorough() else 25)
    fw.report_corr(ctx, "mint", res, features)
    if res is not None:
        st = res["stats"]
        for k in ("fired.1", "minted.blocks", "minted.to_cap"):
            if st.get(k, 0) == 0:
                ctx.fail("infra", "mint suite generator produced no case of kind " + k, json.dumps(st))
    # part 3: transfer ban — every message kind attempted with uvrise / a share token / a control denom on the real app
    res = fw.corr(ctx, "ban", 6 if ctx.thorough() else 2, driver_suite=False)
    fw.report_corr(ctx, "ban", res)
    if res is not None:
        st = res["stats"]
        kinds = ("send", "multisend", "authz_exec_send", "ibc_transfer", "pool_deposit_base", "pool_deposit_quote", "swap_in",
                 "account_init_funds", "lockup_send")
        for k in kinds:
            if st.get(k + ".uvrise.err", 0) + st.get(k + ".uvrise.ok", 0) == 0 or st.get(k + ".uaaa.ok", 0) == 0:
                ctx.fail("infra", "ban suite did not exercise message kind " + k, json.dumps(st))
    if ctx.thorough() and ok:
        ctx.leanchecker(MODULES)


def replay(ctx, path):
    """print the replay file and re-run the suite it names with the recorded seed; exit 1 if the oracle still fails"""
    txt = open(path).read()
    print(txt)
    try:
        rp = json.loads(txt)
    except Exception:
        return 0
    svh = ctx.gobuild("svh")
    if not svh:
        return 1
    rc_all = 0
    for fi in rp.get("failing_inputs", []):
        inp = fi.get("input") or {}
        suite = inp.get("suite")
        if not suite:
            continue
        n = {"convert": 8, "mint": 25, "ban": 2}.get(suite, 10)
        if rp.get("tier") == "thorough":
            n = {"convert": 60, "mint": 120, "ban": 6}.get(suite, 10)
        rc, so, se, dt = fw.sh([svh, "-seed", str(inp.get("seed", rp.get("seed", 1))), "-n", str(n), suite])
        fails = [l for l in so.splitlines() if l.startswith("! ") and " FAIL " in l]
        print("\n".join(fails[:20]) or "suite %s: no oracle failure on the current tree" % suite)
        if fails:
            rc_all = 1
    return rc_all
