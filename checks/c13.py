"""C13 — RISE/vRISE supply: 1:1 conversion, capped emission, vRISE not transferable."""
from lib import fw

MODULES = ["SunriseVerif.Props.C13"]


def run(ctx):
    if not ctx.translate():
        return
    ok = ctx.prove(MODULES)
    res = fw.corr(ctx, "convert", 60 if ctx.thorough() else 8)
    fw.report_corr(ctx, "convert", res)
    if ctx.thorough() and ok:
        ctx.leanchecker(MODULES)


def replay(ctx, path):
    print(open(path).read())
    return 0
