"""C11 — IBC swap: conservation, one acknowledgement, only after every leg resolves."""
import json, os, re, subprocess
from lib import fw

MODULES = ["SunriseVerif.Props.C11", "SunriseVerif.Witness.C11"]
FEATURES = ("strategy", "has_change", "retries_left", "refunded", "resent", "kept_is_remainder", "receiver_holds_input",
            "legs_outstanding", "malformed_memo")


def features(fail):
    """input-class features of an oracle failure, read from the k=v pairs the harness computed from the replayed history"""
    out = {}
    for k, v in re.findall(r"(\w+)=(\S+)", fail["detail"]):
        if k in FEATURES and k not in out:
            out[k] = v
    return out


def run(ctx):
    if not ctx.translate():
        return
    ok = ctx.prove(MODULES)
    n = 5000 if ctx.thorough() else 250
    res = fw.corr(ctx, "ibc", n)
    fw.report_corr(ctx, "ibc", res, known_features=features)
    if res is not None:
        st = res["stats"]
        # the generator must actually reach the interesting paths, otherwise agreement means nothing
        for k, lo in (("swap.accepted", 10), ("swap.refused", 5), ("leg.ack.ok", 8), ("leg.timeout.ok", 4), ("both_legs", 2), ("resend", 2)):
            if st.get(k, 0) < lo:
                ctx.fail("infra", "generator coverage: %s=%d < %d" % (k, st.get(k, 0), lo), str(st))
    if ctx.thorough() and ok:
        ctx.leanchecker(MODULES)


def replay(ctx, path):
    """print the replay file and re-run its seed through svh + the Lean model"""
    r = json.load(open(path))
    print(json.dumps(r, indent=1)[:6000])
    seed = r.get("seed", 1)
    ctx.seed = seed
    res = fw.corr(ctx, "ibc", 90)
    if res is None:
        return 1
    for m in res["mismatches"]:
        print("MISMATCH", json.dumps(m, indent=1)[:3000])
    for f in res["oracle_fails"]:
        print("ORACLE", f["check"], f["detail"][:300])
    return 0
