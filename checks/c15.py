"""C15 — untrusted inputs are rejected with errors, never with panics."""
import base64, json, os, re
from lib import fw

MODULES = ["SunriseVerif.Props.C15", "SunriseVerif.Witness.C15", "SunriseVerif.Props.ParamGuards", "SunriseVerif.Props.ParamGuardsSwap",
           # range assertions of cosmossdk.io/math: `f_rng` guards regenerated next to every kernel; no range panic inside the input boxes
           "SunriseVerif.Props.C15Range"]


def feats(f):
    d = f["detail"]
    out = {}
    for k in ("entry", "cause", "via"):
        m = re.search(r"\b%s=(\S+)" % k, d)
        if m:
            out[k] = m.group(1)
    return out


def report(ctx, res):
    """like fw.report_corr, but the replay carries the concrete input (base64) of the failing call"""
    if res is None:
        return
    for m in res["mismatches"][:3]:
        ctx.fail("correspondence", "model and implementation disagree in suite untrusted",
                 "impl: %s | model: %s" % (m["impl"][:300], m["model"][:300]),
                 replay={"suite": "untrusted", "seed": ctx.seed, "input_line": (m["history"] or [""])[-1][:4000],
                         "impl": m["impl"], "model": m["model"]})
    seen = set()
    for f in res["oracle_fails"]:
        ft = feats(f)
        key = (f["check"], ft.get("entry"), ft.get("cause"))
        if key in seen:
            continue
        seen.add(key)
        m = re.search(r"input=(\S*)", f["detail"])
        pm = re.search(r"panic=(\S*)", f["detail"])
        ctx.fail("oracle", "%s: %s via %s (%s)" % (f["check"], ft.get("cause"), ft.get("via"), pm.group(1)[:120] if pm else ""), "",
                 replay={"suite": "untrusted", "seed": ctx.seed, "via": ft.get("via"), "input": m.group(1) if m else "",
                         "panic": pm.group(1) if pm else ""},
                 features={"entry": ft.get("entry"), "cause": ft.get("cause")}, check=f["check"])


def run(ctx):
    if not ctx.translate():
        return
    ok = ctx.prove(MODULES, needs_gen=["KernelsParamsSwap", "KernelsCL", "KernelsSwap"])
    # the regenerated range guards against the Go functions: a range-assertion panic of cosmossdk.io/math <=> not f_rng,
    # on operands on both sides of every bound (2^63, 2^64, 2^256, 2^256*10^18); per-kernel counts go into the evidence
    mism = ctx.kernel_diff("dec,cl", 2500 if ctx.thorough() else 300, label="kernel_range")
    if mism:
        ctx.fail("correspondence", "kernel differential (Go range assertions vs regenerated f_rng / f_ok guards)", str(mism[:3]),
                 replay={"kernel_mismatches": mism[:20]})
    n = 600 if ctx.thorough() else 20          # thousands of inputs
    res = fw.corr(ctx, "untrusted", n, timeout=1500)
    report(ctx, res)
    if res is not None:
        st = res["stats"]
        ctx.cov["outcomes"] = {k: v for k, v in st.items()}
        tot = sum(v for k, v in st.items() if k.rsplit(".", 1)[-1] in ("ok", "err", "panic", "unbounded"))
        ctx.cov["evaluations"] = max(ctx.cov["evaluations"], tot)
        ctx.cov["entrypoints_exercised"] = sorted(set(l[8:] for l in res["trace"] if l.startswith("# entry ")))
        if any(l.startswith("# aborted") for l in res["trace"]):
            ctx.notes.append("the run stopped at the first unbounded call")
    # field values that a handler ACCEPTS are read again by the block hooks: the gauge suite submits every malformed weight from a
    # delegator and from an operator and runs the blocks across the next epoch boundaries; a panic there (halt / crash of the
    # process) is a panic caused by an untrusted field value
    r2 = fw.corr(ctx, "gauge", 12 if ctx.thorough() else 2, driver_suite=False, timeout=900)
    if r2 is not None:
        r2["oracle_fails"] = [f for f in r2["oracle_fails"] if f["check"] in ("no_panic", "no_halt", "no_crash", "hang")]
        fw.report_corr(ctx, "gauge", r2, known_features=lambda f: {"check": f["check"]})
    if ctx.thorough() and ok:
        ctx.leanchecker(MODULES)


def replay(ctx, path):
    """re-execute the failing inputs of a replay file on the real code"""
    d = json.load(open(path))
    print(json.dumps(d, indent=1)[:4000])
    svh = ctx.gobuild("svh")
    rc = 0
    for i, fi in enumerate(d.get("failing_inputs", [])):
        inp = fi.get("input") or {}
        if not inp.get("via"):
            continue
        p = os.path.join(ctx.tmp, "replay-%d.json" % i)
        json.dump({"Via": inp["via"], "Input": inp.get("input", "")}, open(p, "w"))
        r, so, se, dt = fw.sh([svh, "-replay", p, "untrusted"])
        print(so[-3000:])
        if "FAIL" in so:
            rc = 1
    return rc
