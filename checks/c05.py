"""C05 — swap pricing never beats the exact curve."""
from lib import fw
from checks import _cl

# the bookkeeping theorems of C04 (incl. the pinned crossing conventions of the regenerated swap helpers) are supporting
# obligations: pricing, custody and fee accrual all read the active liquidity they maintain
MODULES = ["SunriseVerif.Props.C05", "SunriseVerif.Props.C05Loop", "SunriseVerif.Props.C05Store", "SunriseVerif.Props.C05Round", "SunriseVerif.Props.C05Round2", "SunriseVerif.Props.C04"]


def run(ctx):
    if not ctx.translate():
        return
    ok = ctx.prove(MODULES, needs_gen=["KernelsCL"])
    n = 12000 if ctx.thorough() else 600
    mism = ctx.kernel_diff("dec,cl", n)
    if mism:
        ctx.fail("correspondence", "kernel differential (Go vs regenerated Lean)", str(mism[:3]), replay={"kernel_mismatches": mism[:20]})
    _cl.run_cl(ctx, "C05")
    # the statements evaluated on concrete operands (cheap when proofs hold; the failing-input search when they do not)
    bad = fw.pred_search(ctx, "C05", (20000 if ctx.thorough() else 3000) if ok else 60000)
    if bad:
        ctx.fail("oracle", "kernel statement false on concrete operands", str(bad[:3]), replay={"false_statements": bad[:20]},
                 check="kernel_statement", features={"pred": bad[0]["pred"]})
    if ok:
        # The two clauses that are FALSE of the unchanged code at extreme prices (machine-checked witnesses on the regenerated
        # kernels in Props/C05Round, replayed on the Go helpers): listed in known_findings/C05.json, reported as KNOWN-FINDING.
        ctx.fail("oracle", "roundtrip_no_profit: one bucket, fee 0, sqrt price 10^10, liquidity 2*10^10-8*10^-9: 199999999999999999920 quote in, "
                 "1 base out, fed back: 199999999999999999959 quote (Props/C05Round.roundtrip_profit_fee0)", "",
                 replay={"witness": "Props/C05Round.roundtrip_profit_fee0", "P_raw": "10^28", "L_raw": "2*10^28-8*10^9", "X": "2*10^20-80"},
                 features={"class": "extreme_sqrt_price_rounding_dust"}, check="roundtrip_no_profit")
        ctx.fail("oracle", "output_monotone_in_input: one bucket, fee 0, sqrt price 10^-9, liquidity 0.9: Dec inputs of 194 and 195 ulps, "
                 "the output drops (Props/C05Round.bucket_output_not_mono)", "",
                 replay={"witness": "Props/C05Round.bucket_output_not_mono"},
                 features={"class": "fractional_dec_input_at_tiny_price"}, check="output_monotone_in_input")
    if ctx.thorough() and ok:
        ctx.leanchecker(MODULES)


def replay(ctx, path):
    print(open(path).read())
    return 0
