"""C05 — swap pricing never beats the exact curve."""
from lib import fw
from checks import _cl

# the bookkeeping theorems of C04 (incl. the pinned crossing conventions of the regenerated swap helpers) are supporting
# obligations: pricing, custody and fee accrual all read the active liquidity they maintain
MODULES = ["SunriseVerif.Props.C05", "SunriseVerif.Props.C05Loop", "SunriseVerif.Props.C05Store", "SunriseVerif.Props.C04"]


def run(ctx):
    if not ctx.translate():
        return
    ok = ctx.prove(MODULES, needs_gen=["KernelsCL"])
    n = 12000 if ctx.thorough() else 600
    mism = ctx.kernel_diff("dec,cl", n)
    if mism:
        ctx.fail("correspondence", "kernel differential (Go vs regenerated Lean)", str(mism[:3]), replay={"kernel_mismatches": mism[:20]})
    _cl.run_cl(ctx, "C05")
    # the statements evaluated on concrete operands (cheap when proofs hold; the failing-input search when they do not)
    bad = fw.pred_search(ctx, "C05", (20000 if ctx.thorough() else 3000) if ok else 60000)
    if bad:
        ctx.fail("oracle", "kernel statement false on concrete operands", str(bad[:3]), replay={"false_statements": bad[:20]},
                 check="kernel_statement", features={"pred": bad[0]["pred"]})
    if ctx.thorough() and ok:
        ctx.leanchecker(MODULES)


def replay(ctx, path):
    print(open(path).read())
    return 0
