"""C14 — replicated execution is deterministic."""
import json, os, re, shutil, subprocess
from lib import fw

MODULES = ["SunriseVerif.Props.C14"]
C14DIR = os.path.join(fw.WORK, "c14")


def _facts():
    """(sites, constructs) parsed from the regenerated Gen/Facts.lean"""
    src = open(os.path.join(fw.LEAN, "SunriseVerif", "Gen", "Facts.lean")).read()
    sites = re.findall(r'\{ file := "([^"]*)", fn := "([^"]*)", hash := "([^"]*)", useHash := "([^"]*)", expr := "((?:[^"\\]|\\.)*)", kind := "([^"]*)"', src)
    cons = re.findall(r'\{ kind := "([^"]*)", file := "([^"]*)", fn := "([^"]*)", detail := "((?:[^"\\]|\\.)*)" \}', src)
    return sites, cons


def _proved():
    src = open(os.path.join(fw.LEAN, "SunriseVerif", "Props", "C14.lean")).read()
    keys = set(re.findall(r'\(⟨"([^"]*)", "([^"]*)", "([^"]*)", "([^"]*)"⟩, "[^"]*"\)', src))
    allowed = set(re.findall(r'\(⟨"([^"]*)", "([^"]*)", "([^"]*)", "([^"]*)"⟩,\s*\n', src))
    return keys, allowed


def _focus(path):
    if path.startswith("x/da/"):
        return "da"
    if path.startswith("x/liquidityincentive/"):
        return "gauge"
    if path.startswith("app/gov"):
        return "gov"
    return "all"


def _gen(ctx, svh, focus, tag):
    os.makedirs(C14DIR, exist_ok=True)
    path = os.path.join(C14DIR, "hist-%s-%d-%d.json" % (tag, ctx.seed, os.getpid()))
    rc, so, se, dt = fw.sh([svh, "-seed", str(ctx.seed), "-replay", "gen=%s,focus=%s" % (path, focus), "determinism"], timeout=600)
    if rc != 0 or "setup-error" in so:
        ctx.fail("infra", "svh determinism gen", (so[-800:] + se[-800:]))
        return None, None, None
    lines = [l for l in so.splitlines() if l and l[0] not in "#>!"]
    notes = [l for l in so.splitlines() if l.startswith("# ")]
    return path, lines, notes


def _runs(svh, path, n, par=4):
    outs = []
    for i in range(0, n, par):
        # the replicas differ in the ProcessProposal calls they see before each FinalizeBlock (pp=0 none: block replay,
        # 1 the decided block, 2 a proposal of another round first): the result must not depend on them
        # ... and in the node's environment: the process time zone (time.Local) must not reach state, results or events
        zones = ["UTC", "Asia/Tokyo", "America/New_York", "Pacific/Chatham"]
        ps = [subprocess.Popen([svh, "-replay", "run=%s,pp=%d" % (path, (i + j) % 3), "determinism"], stdout=subprocess.PIPE, stderr=subprocess.DEVNULL,
                               env=dict(os.environ, TZ=zones[(i + j) % len(zones)]))
              for j in range(min(par, n - i))]
        for p in ps:
            outs.append(p.communicate()[0].decode().splitlines())
    return outs


def _first_diff(a, b):
    for i, (x, y) in enumerate(zip(a, b)):
        if x != y:
            return i, x, y
    if len(a) != len(b):
        return min(len(a), len(b)), "<%d lines>" % len(a), "<%d lines>" % len(b)
    return None


def _compare(ctx, what, ref, outs, path, features):
    """all outputs must equal ref; a differing pair is a replayable violation"""
    for k, o in enumerate(outs):
        d = _first_diff(ref, o)
        if d:
            keep = os.path.join(fw.VERIF, "replays", "C14-%d-%s.hist.json" % (ctx.seed, what))
            os.makedirs(os.path.dirname(keep), exist_ok=True)
            shutil.copyfile(path, keep)
            ctx.fail("oracle", "two executions of the same blocks differ (%s)" % what,
                     "first differing block line %d: %s | %s" % (d[0], d[1][:200], d[2][:200]),
                     replay={"history_file": keep, "how": "svh -replay run=<history_file> determinism, twice", "line": d[0], "run_a": d[1], "run_b": d[2]},
                     features=features, check="replicated_execution")
            return False
    return True


def run(ctx):
    if not ctx.translate():
        return
    ok = ctx.prove(MODULES)
    sites, cons = _facts()
    proved, allowed = _proved()
    open_sites = [s for s in sites if (s[0], s[1], s[2], s[3]) not in proved]
    open_cons = [c for c in cons if c not in allowed]
    ctx.cov["stages"]["facts"] = {"map_range_sites": len(sites), "uncovered_sites": len(open_sites), "constructs": len(cons), "unjustified_constructs": len(open_cons)}
    for s in open_sites:
        ctx.log("open obligation: range over %s (%s) in %s %s is new or was edited (hash %s / %s)" % (s[4], s[5], s[0], s[1], s[2], s[3]))
    for c in open_cons:
        ctx.log("open obligation: %s use in %s %s: %s" % c)

    svh = ctx.gobuild("svh")
    if not svh:
        return
    n = 16 if ctx.thorough() else 4
    path, ref, notes = _gen(ctx, svh, "all", "all")
    if path is None:
        return
    cover = {}
    for l in notes:
        m = re.match(r"# cover (\S+)=(\d+)", l)
        if m:
            cover[m.group(1)] = int(m.group(2))
        if l.startswith("# builder:"):
            ctx.notes.append("history builder: " + l[11:])
    ctx.cov["stages"]["history"] = {"blocks": len(ref), "cover": cover, "builder_failures": len([l for l in notes if l.startswith("# builder:")])}
    # every listed map must have held >= 2 entries in this history
    need = {"da.fault_counters": 2, "da.challenges_tallied": 2, "gauge.last_epoch_gauges": 2, "gauge.votes": 2, "gov.proposals_tallied": 1}
    for k, v in need.items():
        if cover.get(k, 0) < v:
            ctx.fail("infra", "history does not exercise " + k, "have %s need %d (seed %d)" % (cover.get(k), v, ctx.seed))
    if any("HALT" in l or l == "halted" for l in ref):
        ctx.fail("infra", "history halts the chain", "\n".join(l for l in ref if "HALT" in l)[:300])
    outs = _runs(svh, path, n)
    same = _compare(ctx, "all", ref, outs, path, {"focus": "all"})
    ctx.cov["evaluations"] += (n + 1) * len(ref)
    ctx.cov["distinct_nontrivial"] += len(ref)
    ctx.cov["traces_validated_against_impl"] = n + 1
    ctx.cov["samples"] += [{"block_digest": l[:160]} for l in ref[:3]]
    ctx.cov["stages"]["replicated_runs"] = {"processes": n + 1, "identical": same}

    # failing-input search for open obligations: a history focused on the site, many processes, look for two different outcomes
    if (open_sites or open_cons or not ok) and same:
        m = 64 if ctx.thorough() else 24
        foci = sorted({_focus(s[0]) for s in open_sites} | {_focus(c[1]) for c in open_cons}) or ["all"]
        for f in foci:
            p2, ref2, _ = _gen(ctx, svh, f, f)
            if p2 is None:
                continue
            outs2 = _runs(svh, p2, m)
            found = not _compare(ctx, f, ref2, outs2, p2, {"focus": f})
            ctx.cov["stages"]["search_" + f] = {"processes": m + 1, "difference_found": found}
            ctx.cov["evaluations"] += (m + 1) * len(ref2)
            try:
                os.remove(p2)
            except OSError:
                pass
    try:
        os.remove(path)
    except OSError:
        pass
    if ctx.thorough() and ok:
        ctx.leanchecker(MODULES)


def replay(ctx, path):
    rp = json.load(open(path))
    print(json.dumps(rp, indent=1)[:4000])
    svh = ctx.gobuild("svh")
    rc = 0
    for fi in rp.get("failing_inputs", []):
        h = (fi.get("input") or {}).get("history_file")
        if h and os.path.exists(h) and svh:
            outs = _runs(svh, h, 16)
            distinct = {"\n".join(o) for o in outs}
            print("re-executed %s 16 times: %d distinct outcomes" % (h, len(distinct)))
            if len(distinct) > 1:
                rc = 1
    return rc
