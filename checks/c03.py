"""C03 — swaps honour the amounts and limits the user stated, on every route shape."""
from lib import fw

MODULES = ["SunriseVerif.Props.C03"]
GEN = ["KernelsSwap"]


def known_features(f):
    return {}


def run(ctx):
    if not ctx.translate():
        return
    ok = ctx.prove(MODULES, needs_gen=GEN)
    res = fw.corr(ctx, "route", 120 if ctx.thorough() else 14)
    fw.report_corr(ctx, "route", res, known_features)
    if ctx.thorough() and ok:
        ctx.leanchecker(MODULES)


def replay(ctx, path):
    print(open(path).read())
    return 0
