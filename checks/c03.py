"""C03 — swaps honour the amounts and limits the user stated, on every route shape."""
import os, subprocess
from lib import fw

MODULES = ["SunriseVerif.Props.C03", "SunriseVerif.Props.C03Pool", "SunriseVerif.Witness.C03",
           "SunriseVerif.Props.TieSwap"]
GEN = ["KernelsSwap", "KernelsTieSwap"]


def known_features(f):
    return {}


def run(ctx):
    if not ctx.translate():
        return
    ok = ctx.prove(MODULES, needs_gen=GEN)
    n = 600 if ctx.thorough() else 30
    res = fw.corr(ctx, "route", n)
    fw.report_corr(ctx, "route", res, known_features)
    if res is not None:
        st = res["stats"]
        # the run must have exercised what the property is about
        need = {"swapIn.ok": 5, "swapOut.ok": 5, "quote.ok": 10, "kind.reuse": 1}
        low = {k: st.get(k, 0) for k, v in need.items() if st.get(k, 0) < v}
        if low:
            ctx.fail("infra", "route suite coverage too low", str(low))
        if res["mismatches"]:
            m = res["mismatches"][0]
            # a disagreement is a model bug unless the implementation itself violates the property: the oracle lines
            # of the same run decide that (report_corr turned them into failures with the history as replay)
            ctx.notes.append("first disagreement at trace line %d; history tail: %s" % (m["line"], m["history"][-6:]))
    if ctx.thorough() and ok:
        ctx.leanchecker(MODULES)


def replay(ctx, path):
    """re-run the suite with the seed of the replay file and print the failing oracle lines / first disagreement"""
    import json
    rp = json.load(open(path))
    print(json.dumps(rp, indent=1)[:4000])
    ctx.seed = rp.get("seed", ctx.seed)
    res = fw.corr(ctx, "route", 150 if rp.get("tier") == "thorough" else 30)
    if res is None:
        return 2
    for f in res["oracle_fails"][:10]:
        print("ORACLE FAIL", f["check"], f["detail"][:400])
    for m in res["mismatches"][:3]:
        print("DISAGREE impl:", m["impl"][:300], "| model:", m["model"][:300])
    return 1 if (res["oracle_fails"] or res["mismatches"]) else 0
