"""C07 — see checks/c07.json; shared machinery in checks/da_common.py."""
from checks import da_common

MODULES = ["SunriseVerif.Props.C07"]


def run(ctx):
    da_common.run(ctx, "C07", MODULES)


def replay(ctx, path):
    return da_common.replay(ctx, path)
