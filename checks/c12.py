"""C12 — lockup accounts never release locked funds early."""
import os
from lib import fw

MODULES = ["SunriseVerif.Props.C12", "SunriseVerif.Props.C12Full", "SunriseVerif.Props.C12MV", "SunriseVerif.Props.C12MVRefine"]
CORPUS = os.path.join(fw.VERIF, "corpus", "C12")


def feats(f):
    """features of an oracle failure for known-finding matching (from the op line that failed)"""
    d = {}
    if f["check"] == "owner_only":
        kv = dict(x.split("=", 1) for x in f["detail"].split() if "=" in x)
        d["caller_is_owner"] = kv.get("caller") == kv.get("owner")
        d["sender_field_is_owner"] = kv.get("sender") == kv.get("owner")
    return d


def run(ctx):
    if not ctx.translate():
        return
    ok = ctx.prove(MODULES, needs_gen=["KernelsLockup"])
    # witnesses and minimised histories first (the fixed finding C12-F1 must stay fixed)
    for p in sorted(os.listdir(CORPUS)) if os.path.isdir(CORPUS) else []:
        if p.endswith(".ops"):
            res = fw.corr(ctx, "lockup", 0, extra_args=["-replay", os.path.join(CORPUS, p)])
            fw.report_corr(ctx, "lockup[%s]" % p, res, feats)
    res = fw.corr(ctx, "lockup", 1200 if ctx.thorough() else 40)
    fw.report_corr(ctx, "lockup", res, feats)
    if res:
        st = res["stats"]
        need = ["send.ok", "nvDelegate.ok", "nvUndelegate.ok", "unauthorized.err", "pxUndelegate.ok", "modSelfDelegate.ok", "block.ok"]
        missing = [k for k in need if st.get(k, 0) == 0]
        if missing:
            ctx.fail("infra", "generator coverage", "never exercised: %s" % missing)
        if st.get("unauthorized.ok", 0) or st.get("unauthorized.panic", 0):
            pass  # reported by the owner_only oracle
    # directed two-validator histories (walk order of the per-validator unbonding records): compared line by line with the
    # multi-validator model (Model/LockupMV.lean, driver suite `lockupmv`) and judged by the oracles
    res2 = fw.corr(ctx, "lockup2", 60 if ctx.thorough() else 6, driver_suite="lockupmv")
    fw.report_corr(ctx, "lockup2", res2, feats)
    if res2 and res2["stats"].get("lockup2.paid_back_before_second_matures", 0) == 0:
        ctx.fail("infra", "generator coverage", "lockup2 never reached the state 'first unbonding paid back, second pending'")
    # generated multi-validator histories (2-3 validators, delegate / undelegate / send across them, block times around the
    # unbonding completion instants incl. the same-second window), same model, same oracles
    res3 = fw.corr(ctx, "lockupmv", 400 if ctx.thorough() else 24, driver_suite="lockupmv")
    fw.report_corr(ctx, "lockupmv", res3, feats)
    if res3:
        st3 = res3["stats"]
        need3 = ["lockupmv.vals_used_2plus", "lockupmv.undelegated_2plus", "lockupmv.block_in_second_window",
                 "lockupmv.blocked_after_maturity", "nvDelegate.ok", "nvUndelegate.ok", "send.ok"]
        missing3 = [k for k in need3 if st3.get(k, 0) == 0]
        if missing3:
            ctx.fail("infra", "generator coverage", "lockupmv never exercised: %s" % missing3)
    # kernel statements on concrete operands (cheap when the proofs hold; the failing-input search when they do not)
    bad = fw.pred_search(ctx, "C12", (4000 if ctx.thorough() else 600) if ok else 20000)
    if bad:
        ctx.fail("oracle", "kernel statement false on concrete operands", str(bad[:3]), replay={"false_statements": bad[:20]},
                 check="kernel_statement", features={"pred": bad[0]["pred"]})
    if ctx.thorough() and ok:
        ctx.leanchecker(MODULES)


def replay(ctx, path):
    import json, subprocess, tempfile
    txt = open(path).read()
    print(txt)
    try:
        j = json.loads(txt)
    except Exception:
        j = None
    svh = ctx.gobuild("svh")
    if not svh:
        return 1
    files = []
    if j:
        for fi in j.get("failing_inputs", []):
            h = (fi.get("input") or {}).get("history")
            if h:
                t = tempfile.NamedTemporaryFile("w", suffix=".ops", delete=False)
                t.write("\n".join(h) + "\n")
                t.close()
                files.append(t.name)
    else:
        files = [path]
    rc = 0
    for f in files:
        p = subprocess.run([svh, "-replay", f, "lockup"], stdout=subprocess.PIPE)
        out = p.stdout.decode()
        print(out)
        if " FAIL " in out:
            rc = 1
    return rc
