"""Shared part of the C07/C08/C09 checks: one correspondence suite (`da`) feeds all three properties."""
from lib import fw

ORACLES = {
    "C07": ["status_graph", "transition_stamps_time", "timestamp_stable", "terminal_is_final", "pruned_only_after_retention",
            "to_challenging_only_at_threshold", "challenging_has_challenger", "to_challenging_at_first_block",
            "expiry_not_early", "resolves_on_time", "invalidity_accept_window", "invalidity_reject_reason",
            "proof_accept_conditions", "publish_accept", "publish_starts_in_challenge_period", "failed_msg_no_change"],
    "C08": ["escrow_eq", "records_only_unresolved", "payout_rule", "dust_bound", "failed_msg_no_change"],
    "C09": ["verdict_ref", "fault_ref", "fault_reset", "challenge_counter", "slash_ref", "threshold_ref"],
}
ALWAYS = ["no_panic", "no_halt", "hang"]
# tie of the hand-written model to the Go source: regenerated guards / deadlines / split arithmetic proved equal to the model's
TIE_MODULES = ["SunriseVerif.Props.TieDA"]
TIE_GEN = ["KernelsTieDA"]


def run(ctx, prop, modules, witness=()):
    if not ctx.translate():
        return
    ok = ctx.prove(list(modules) + TIE_MODULES + list(witness), needs_gen=TIE_GEN)
    n = 2500 if ctx.thorough() else 160
    res = fw.corr(ctx, "da", n)
    if res is not None:
        mine = set(ORACLES[prop] + ALWAYS)
        other = [f for f in res["oracle_fails"] if f["check"] not in mine]
        res["oracle_fails"] = [f for f in res["oracle_fails"] if f["check"] in mine]
        if other:
            ctx.notes.append("oracle failures of sibling DA properties in the same run: " + ", ".join(sorted({f["check"] for f in other})))
        # every edge of the graph, both verdicts, an epoch end and a slashing must have been exercised
        st = res.get("stats", {})
        need = ["edge.CP>CH", "edge.CP>VER", "edge.CH>VER", "edge.CH>REJ", "verdict.VER", "verdict.REJ", "epoch_end", "slashed",
                "invalid.repeat.err", "proof.ok", "setparams.ok"]
        missing = [k for k in need if st.get(k, 0) == 0]
        if missing:
            ctx.fail("infra", "da generator no longer reaches: " + ",".join(missing), "coverage of the correspondence run collapsed")
        fw.report_corr(ctx, "da", res, known_features=lambda f: {"check": f["check"]})
    if ctx.thorough() and ok:
        ctx.leanchecker(list(modules) + TIE_MODULES)


def replay(ctx, path):
    import json
    print(open(path).read())
    try:
        j = json.load(open(path))
    except Exception:
        return 0
    seeds = {x["input"].get("seed") for x in j.get("failing_inputs", []) if x.get("input")}
    for s in seeds:
        ctx.seed = s
        res = fw.corr(ctx, "da", 1200 if j.get("tier") == "thorough" else 160)
        for f in (res or {}).get("oracle_fails", [])[:5]:
            print("REPLAYED oracle failure:", f["check"], f["detail"])
            print("\n".join(f["history"]))
        for m in (res or {}).get("mismatches", [])[:1]:
            print("REPLAYED model/impl disagreement:", m)
    return 0
