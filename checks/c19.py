"""C19 — genesis export/import preserves every custom module's state."""
import json, os, re
from lib import fw

MODULES = ["SunriseVerif.Props.C19", "SunriseVerif.Witness.C19"]


def _table():
    src = open(os.path.join(fw.LEAN, "SunriseVerif", "Gen", "Facts.lean")).read()
    rows = re.findall(r'\{ module := "([^"]*)", name := "([^"]*)", pfx := "((?:[^"\\]|\\.)*)", kind := "([^"]*)", parent := "([^"]*)", '
                      r'initWrites := (true|false), exportReads := (true|false) \}', src)
    return rows


def _uncovered(rows):
    """same definition as Genesis.uncovered"""
    return [(r[0], r[1]) for r in rows if r[3] != "index" and not (r[5] == "true" and r[6] == "true")]


def roundtrip_rows(ctx, match, n_quick=2, n_thorough=12):
    """the genesis suite's export/import round trip for another property's check: only the `genesis_roundtrip` verdicts whose
    detail contains `match` (e.g. 'module=da prefix=PublishedData') are kept; returns the corr() result or None"""
    rows = _table()
    os.makedirs(os.path.join(fw.WORK, "c19"), exist_ok=True)
    tpath = os.path.join(fw.WORK, "c19", "table-%s-%d.tsv" % (ctx.prop, os.getpid()))
    open(tpath, "w").write("\n".join("\t".join(r) for r in rows) + "\n")
    res = fw.corr(ctx, "genesis", n_thorough if ctx.thorough() else n_quick, extra_args=["-replay", "table=" + tpath], driver_suite=False)
    try:
        os.remove(tpath)
    except OSError:
        pass
    if res is None:
        return None
    res["oracle_fails"] = [f for f in res["oracle_fails"] if f["check"] == "genesis_roundtrip" and match in f["detail"]]
    return res


def run(ctx):
    if not ctx.translate():
        return
    ok = ctx.prove(MODULES)
    rows = _table()
    predicted = set(_uncovered(rows))
    os.makedirs(os.path.join(fw.WORK, "c19"), exist_ok=True)
    tpath = os.path.join(fw.WORK, "c19", "table-%d.tsv" % os.getpid())
    open(tpath, "w").write("\n".join("\t".join(r) for r in rows) + "\n")
    n = 40 if ctx.thorough() else 3
    res = fw.corr(ctx, "genesis", n, extra_args=["-replay", "table=" + tpath], driver_suite=False)
    try:
        os.remove(tpath)
    except OSError:
        pass
    if res is None:
        return
    ctx.cov["stages"]["table"] = {"rows": len(rows), "predicted_uncovered": sorted("%s/%s" % p for p in predicted)}

    def feats(f):
        m = re.search(r"module=(\S+) prefix=(\S+)", f["detail"])
        return {"module": m.group(1), "prefix": m.group(2)} if m else {}

    fw.report_corr(ctx, "genesis", res, feats)
    # model prediction vs. observation, both directions
    seen_fail, populated = set(), set()
    for l in res["trace"]:
        m = re.match(r"! genesis_roundtrip (ok|FAIL) module=(\S+) prefix=(\S+) row=(\S+) before=(\d+)", l)
        if m:
            if int(m.group(5)) > 0:
                populated.add((m.group(2), m.group(3)))
            if m.group(1) == "FAIL":
                seen_fail.add((m.group(2), m.group(3)))
    for p in sorted(seen_fail - predicted):
        ctx.fail("correspondence", "prefix %s/%s does not survive export+import but the regenerated table says it is covered" % p,
                 "the extractor's read/write attribution or the keeper's genesis code is wrong for this prefix", replay=None)
    for p in sorted((predicted & populated) - seen_fail):
        ctx.fail("correspondence", "prefix %s/%s survives export+import but the regenerated table says it is uncovered" % p,
                 "the extractor misses a genesis read/write path", replay=None)
    never = sorted(predicted - populated)
    for p in never:
        ctx.fail("infra", "predicted-uncovered prefix %s/%s was never populated by the histories" % p, "cannot be confirmed on the implementation")
    primaries = {(r[0], r[1]) for r in rows if r[3] != "index"}
    ctx.cov["stages"]["roundtrip"] = {"prefixes_populated": len(populated), "prefixes_total": len(primaries),
                                      "differing": sorted("%s/%s" % p for p in seen_fail), "confirmed_known": len(predicted & seen_fail)}
    if ctx.thorough() and ok:
        ctx.leanchecker(MODULES)


def replay(ctx, path):
    rp = json.load(open(path))
    print(json.dumps(rp, indent=1)[:6000])
    return 0
