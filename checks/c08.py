"""C08 — see checks/c08.json; shared machinery in checks/da_common.py."""
from checks import da_common

MODULES = ["SunriseVerif.Props.C08", "SunriseVerif.Props.C08Payout"]


def run(ctx):
    da_common.run(ctx, "C08", MODULES)
    # collateral snapshots across a genesis export/import (the import starts a chain whose module account must again hold exactly
    # what the open items record): the genesis suite's round trip, restricted to the rows of the item store
    import os, re
    from lib import fw
    from checks import c19
    rows = c19._table()
    os.makedirs(os.path.join(fw.WORK, "c19"), exist_ok=True)
    tpath = os.path.join(fw.WORK, "c19", "table-c08-%d.tsv" % os.getpid())
    open(tpath, "w").write("\n".join("\t".join(r) for r in rows) + "\n")
    res = fw.corr(ctx, "genesis", 12 if ctx.thorough() else 2, extra_args=["-replay", "table=" + tpath], driver_suite=False)
    try:
        os.remove(tpath)
    except OSError:
        pass
    if res is None:
        return
    res["oracle_fails"] = [f for f in res["oracle_fails"] if f["check"] == "genesis_roundtrip" and "module=da prefix=PublishedData" in f["detail"]]
    if res.get("stats", {}).get("genesis.da_item_without_collateral", 0) == 0:
        ctx.fail("infra", "genesis suite no longer publishes an item without collateral before the export", "coverage collapsed")
    fw.report_corr(ctx, "genesis", res, known_features=lambda f: {"check": f["check"]})


def replay(ctx, path):
    return da_common.replay(ctx, path)
