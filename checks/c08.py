"""C08 — see checks/c08.json; shared machinery in checks/da_common.py."""
from checks import da_common

MODULES = ["SunriseVerif.Props.C08", "SunriseVerif.Props.C08Payout", "SunriseVerif.Props.C08Block"]


def run(ctx):
    da_common.run(ctx, "C08", MODULES)
    # collateral snapshots across a genesis export/import (the import starts a chain whose module account must again hold exactly
    # what the open items record): the genesis suite's round trip, restricted to the rows of the item store
    from lib import fw
    from checks import c19
    res = c19.roundtrip_rows(ctx, "module=da prefix=PublishedData")
    if res is None:
        return
    if res.get("stats", {}).get("genesis.da_item_without_collateral", 0) == 0:
        ctx.fail("infra", "genesis suite no longer publishes an item without collateral before the export", "coverage collapsed")
    fw.report_corr(ctx, "genesis", res, known_features=lambda f: {"check": f["check"]})


def replay(ctx, path):
    return da_common.replay(ctx, path)
