"""C08 — see checks/c08.json; shared machinery in checks/da_common.py."""
from checks import da_common

MODULES = ["SunriseVerif.Props.C08", "SunriseVerif.Props.C08Payout"]


def run(ctx):
    da_common.run(ctx, "C08", MODULES)


def replay(ctx, path):
    return da_common.replay(ctx, path)
