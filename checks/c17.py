"""C17 — gauge voting counts each bonded token once; emissions follow gauge weights; epochs contiguous."""
import json, os, subprocess
from lib import fw

MODULES = ["SunriseVerif.Props.C17", "SunriseVerif.Props.C17Rate", "SunriseVerif.Props.TieGauge"]


def features(f):
    """input class of an oracle failure (for known-finding matching): the check plus coarse history features"""
    hist = f.get("history", [])
    return {"votes": sum(1 for l in hist if l.startswith("> vote")) > 0}


def run(ctx):
    if not ctx.translate():
        return
    ok = ctx.prove(MODULES, needs_gen=["KernelsTieGauge"])
    n = 1200 if ctx.thorough() else 30
    res = fw.corr(ctx, "gauge", n)
    fw.report_corr(ctx, "gauge", res, features)
    if res is not None:
        st = res["stats"]
        # the generator must have exercised what the property is about
        for k in ("epoch.created", "block.emission", "alloc.paid", "vote.valid.ok", "delegate.ok"):
            if st.get(k, 0) == 0:
                ctx.fail("infra", "gauge generator never produced " + k, json.dumps(st))
    # epochs, gauges and votes across a genesis export/import: the chain started from the export must keep allocating to the same
    # gauges and prune the same epochs (the genesis suite's round trip, restricted to this module's rows)
    from checks import c19
    r2 = c19.roundtrip_rows(ctx, "module=liquidityincentive ")
    if r2 is not None:
        fw.report_corr(ctx, "genesis", r2, known_features=lambda f: {"check": f["check"]})
    if ctx.thorough() and ok:
        ctx.leanchecker(MODULES)


def replay(ctx, path):
    d = json.load(open(path))
    print(json.dumps(d, indent=1)[:20000])
    svh = ctx.gobuild("svh")
    for fi in d.get("failing_inputs", []):
        inp = fi.get("input") or {}
        if inp.get("suite") == "gauge" and svh:
            p = subprocess.run([svh, "-seed", str(inp.get("seed", 1)), "-n", "400" if d.get("tier") == "thorough" else "30",
                                "-tier", d.get("tier", "quick"), "gauge"], stdout=subprocess.PIPE)
            for l in p.stdout.decode().splitlines():
                if l.startswith("! ") and " FAIL " in l:
                    print(l)
    return 0
