"""C06 — see DESIGN.md section 5."""
from lib import fw
from checks import _cl

# the bookkeeping theorems of C04 (incl. the pinned crossing conventions of the regenerated swap helpers) are supporting
# obligations: pricing, custody and fee accrual all read the active liquidity they maintain
MODULES = ["SunriseVerif.Props.C06", "SunriseVerif.Props.C06Accrual", "SunriseVerif.Props.C06Refine", "SunriseVerif.Props.C06Refine2", "SunriseVerif.Props.C06Msg", "SunriseVerif.Props.C06Msg2", "SunriseVerif.Props.C06Run", "SunriseVerif.Props.C06Run2", "SunriseVerif.Lemmas.C05Round2Fees", "SunriseVerif.Props.C04"]


def run(ctx):
    if not ctx.translate():
        return
    ok = ctx.prove(MODULES, needs_gen=["KernelsCL"])
    _cl.run_cl(ctx, "C06")
    bad = fw.pred_search(ctx, "C06", (20000 if ctx.thorough() else 2000) if ok else 60000)
    if bad:
        ctx.fail("oracle", "kernel statement false on concrete operands", str(bad[:3]), replay={"false_statements": bad[:20]},
                 check="kernel_statement", features={"pred": bad[0]["pred"]})
    if ctx.thorough() and ok:
        ctx.leanchecker(MODULES)


def replay(ctx, path):
    print(open(path).read())
    return 0
