"""C09 — see checks/c09.json; shared machinery in checks/da_common.py."""
from checks import da_common

MODULES = ["SunriseVerif.Props.C09"]


def run(ctx):
    da_common.run(ctx, "C09", MODULES)
    # directed slash-epoch histories with validators jailed / not bonded at the boundary while carrying fault counters
    # (state the message-driven `da` suite cannot reach); oracle only: slash_iff, fault_reset, challenge_counter
    from lib import fw
    res = fw.corr(ctx, "daepoch", 1000 if ctx.thorough() else 25, driver_suite=False)
    fw.report_corr(ctx, "daepoch", res, known_features=lambda f: {"check": f["check"]})


def replay(ctx, path):
    return da_common.replay(ctx, path)
