"""C09 — see checks/c09.json; shared machinery in checks/da_common.py."""
from checks import da_common

MODULES = ["SunriseVerif.Props.C09"]


def run(ctx):
    da_common.run(ctx, "C09", MODULES)


def replay(ctx, path):
    return da_common.replay(ctx, path)
