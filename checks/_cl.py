"""Shared stage for the concentrated-liquidity properties (C02, C04, C05, C06): the `cl` correspondence suite."""
from lib import fw

# oracle checks of the cl suite, by the property they decide
ORACLES = {
    "C02": {"drain_succeeds", "owner_only", "claim_succeeds", "reset_is_fresh"},
    "C04": {"active_liquidity_eq", "tick_gross_net_eq", "accumulator_shares_eq", "price_in_tick_interval", "reset_is_fresh"},
    "C05": {"out_le_exact_curve", "in_ge_exact_curve", "quote_eq_execute", "roundtrip_no_profit", "swap_in_debit_le_stated", "swap_out_eq_response", "swap_in_eq_response", "swap_out_le_stated"},
    "C06": {"fresh_position_claims_nothing", "second_claim_zero", "claim_succeeds", "accumulator_shares_eq"},
    "C15": {"no_panic"},
}


def run_cl(ctx, prop, n_quick=24, n_thorough=800):
    res = fw.corr(ctx, "cl", n_thorough if ctx.thorough() else n_quick)
    if res is None:
        return
    mine = ORACLES[prop]
    res["oracle_fails"] = [f for f in res["oracle_fails"] if f["check"] in mine]
    fw.report_corr(ctx, "cl", res, known_features=_features)
    return res


def _features(f):
    """known-finding features of a cl oracle failure: the check and, for failing exits, the class the harness assigned"""
    import re
    feats = {"check": f["check"]}
    m = re.search(r"class=(\S+)", f["detail"])
    if m:
        feats["class"] = m.group(1)
    return feats
