"""C10 — non-voting delegation: shares, principal and rewards are accounted exactly once."""
import json, os, re
from lib import fw

MODULES = ["SunriseVerif.Props.C10", "SunriseVerif.Props.C10Kernel", "SunriseVerif.Props.C10Accrual", "SunriseVerif.Witness.C10", "SunriseVerif.Props.C10Refine", "SunriseVerif.Props.C10RefineRun",
           "SunriseVerif.Props.TieShare"]
PROVED_PREDS = None  # every Spec/C10 statement is evaluated; (T) ones are test-level evidence only


def features(f):
    """input class of an oracle failure, for known-finding matching"""
    m = re.search(r"class=(\w+)", f["detail"])
    feats = {}
    if m:
        feats["class"] = m.group(1)
    return feats


def run(ctx):
    if not ctx.translate():
        return
    ok = ctx.prove(MODULES, needs_gen=["KernelsShare", "KernelsTieShare"])
    # 1. the decimal model and the regenerated kernels against the real Go functions
    mism = ctx.kernel_diff("share", 4000 if ctx.thorough() else 500, label="kernel_share")
    if mism:
        ctx.fail("correspondence", "kernel differential (Go vs Dec34 model / regenerated shareclass kernels)", str(mism[:3]),
                 replay={"kernel_mismatches": mism[:20]})
    # 2. kernel statements on concrete operands (failing-input search when a proof breaks; test-level for the (T) ones)
    bad = fw.pred_search(ctx, "C10", (6000 if ctx.thorough() else 1200) if ok else 20000)
    if bad:
        ctx.fail("oracle", "kernel statement false on concrete operands", str(bad[:3]), replay={"false_statements": bad[:20]},
                 check="kernel_statement", features={"pred": bad[0]["pred"]})
    # 3. the state-machine model against the real application + the property oracle
    res = fw.corr(ctx, "share", 1000 if ctx.thorough() else 60)
    fw.report_corr(ctx, "share", res, features)
    if res and res["mismatches"]:
        # a disagreement: say whether the oracle saw the property itself fail in the same run
        ctx.notes.append("share suite disagreement; oracle failures in the same run: %d" % len(res["oracle_fails"]))
    if res:
        st = res["stats"]
        need = ["claim.ok", "delegate.ok", "undelegate.ok", "unbonding.paid", "reward.events"]
        missing = [k for k in need if st.get(k, 0) == 0]
        if missing:
            ctx.fail("infra", "share suite generator covered nothing of: " + ",".join(missing), "")
    if ctx.thorough() and ok:
        ctx.leanchecker(MODULES)


def replay(ctx, path):
    data = json.load(open(path))
    print(json.dumps(data, indent=1)[:6000])
    # re-run the histories of the recorded seed through the real application and print the oracle verdicts
    seeds = {fi["input"].get("seed") for fi in data.get("failing_inputs", []) if isinstance(fi.get("input"), dict) and fi["input"].get("suite") == "share"}
    rc = 0
    for s in seeds:
        ctx.seed = s
        res = fw.corr(ctx, "share", 300 if data.get("tier") == "thorough" else 60)
        if res:
            for f in res["oracle_fails"][:10]:
                print("oracle FAIL", f["check"], f["detail"])
                rc = 1
            for m in res["mismatches"][:3]:
                print("disagreement impl:", m["impl"][:300], "| model:", m["model"][:300])
                rc = 1
    return rc
